//go:build verif

package pdf

import (
	"bytes"
	"fmt"

	"seehuhn.de/go/pdf/internal/verifrt"
)

type verifObjState struct {
	defined, everMentioned, free bool
	gen, val                     int
}

type verifXEnt struct {
	num, gen, off int
	free          bool
}

func verifSortEnts(ents []verifXEnt) {
	for i := 1; i < len(ents); i++ {
		for j := i; j > 0 && ents[j-1].num > ents[j].num; j-- {
			ents[j-1], ents[j] = ents[j], ents[j-1]
		}
	}
}

// Verif_C04_histories: an independent serialiser lays out R revisions of K
// objects; per cell the solver chooses {not mentioned, defined, freed,
// redefined after a free}, per revision the section kind {xref table, table
// with split subsections, xref stream with its own /W and /Index}; optional
// junk before the header.  The Reader must return, for every (number,
// generation), the value of the newest revision that defines it, null for
// free, absent or generation-mismatched references.
func Verif_C04_histories() {
	R := 2 + verifrt.Tier()
	K := 2
	var f bytes.Buffer
	junk := verifrt.Choice("junk", 2) * 7
	for i := 0; i < junk; i++ {
		f.WriteByte("junk\n"[i%5])
	}
	hdr := f.Len()
	f.WriteString("%PDF-1.7\n%\x80\x80\x80\x80\n")
	wsIdx := verifrt.Choice("ws", 3)
	ws := []string{" ", "\r\n", " % c\n"}[wsIdx]
	eol := []string{" \n", " \r", "\r\n"}[verifrt.Choice("eol", 1+2*verifrt.Tier())]
	// end-of-line after the keywords xref, trailer, startxref and after
	// subsection headers and the startxref offset
	// (quick tier: varied together with the white space inside objects)
	kwIdx := wsIdx
	if verifrt.Tier() > 0 {
		kwIdx = verifrt.Choice("kweol", 3)
	}
	kw := []string{"\n", "\r\n", "\r"}[kwIdx]
	state := make([]verifObjState, K+3)
	prev := -1
	catalog, pages := K+1, K+2
	nextStm := K + 3
	for rev := 0; rev < R; rev++ {
		kind := verifrt.Choice("kind", 4)
		var ents []verifXEnt
		// objects defined inside an object stream of this revision (only in
		// revisions described by a cross-reference stream, generation 0)
		compressedIn := map[int]int{}
		var members [][2]int // object number, value
		objStm := 0
		if rev == 0 {
			ents = append(ents, verifXEnt{0, 65535, 0, true})
			off := f.Len() - hdr
			fmt.Fprintf(&f, "%d 0 obj\n<</Type/Catalog/Pages %d 0 R>>\nendobj\n", catalog, pages)
			ents = append(ents, verifXEnt{catalog, 0, off, false})
			off = f.Len() - hdr
			fmt.Fprintf(&f, "%d 0 obj\n<</Type/Pages/Kids[]/Count 0>>\nendobj\n", pages)
			ents = append(ents, verifXEnt{pages, 0, off, false})
		}
		for k := 1; k <= K; k++ {
			st := &state[k]
			switch verifrt.Choice("act", 4) {
			case 1: // define (or redefine) with the current generation
				val := 100*(rev+1) + k
				if kind == 2 && st.gen == 0 && verifrt.Choice("compressed", 2) == 1 {
					if objStm == 0 {
						objStm = nextStm
						nextStm++
					}
					compressedIn[k] = objStm
					ents = append(ents, verifXEnt{k, 0, len(members), false})
					members = append(members, [2]int{k, val})
					st.defined, st.val, st.free, st.everMentioned = true, val, false, true
					break
				}
				off := f.Len() - hdr
				fmt.Fprintf(&f, "%d %d obj%s%d%sendobj\n", k, st.gen, ws, val, ws)
				ents = append(ents, verifXEnt{k, st.gen, off, false})
				st.defined, st.val, st.free, st.everMentioned = true, val, false, true
			case 2: // free
				if st.everMentioned && !st.free {
					st.gen++
					st.defined, st.free = false, true
					ents = append(ents, verifXEnt{k, st.gen, 0, true})
				} else if !st.everMentioned {
					st.free, st.everMentioned = true, true
					ents = append(ents, verifXEnt{k, st.gen, 0, true})
				}
			case 3: // define again after a free, with the bumped generation
				verifrt.Assume(st.free) // otherwise the same history as action 0
				if st.free {
					val := 100*(rev+1) + 50 + k
					off := f.Len() - hdr
					fmt.Fprintf(&f, "%d %d obj %d endobj\n", k, st.gen, val)
					ents = append(ents, verifXEnt{k, st.gen, off, false})
					st.defined, st.val, st.free = true, val, false
				}
			}
		}
		if objStm != 0 {
			var head, body bytes.Buffer
			for _, m := range members {
				fmt.Fprintf(&head, "%d %d ", m[0], body.Len())
				fmt.Fprintf(&body, "%d ", m[1])
			}
			off := f.Len() - hdr
			fmt.Fprintf(&f, "%d 0 obj\n<</Type/ObjStm/N %d/First %d/Length %d>>\nstream\n", objStm, len(members), head.Len(), head.Len()+body.Len())
			f.Write(head.Bytes())
			f.Write(body.Bytes())
			f.WriteString("\nendstream\nendobj\n")
			ents = append(ents, verifXEnt{objStm, 0, off, false})
		}
		size := K + 3
		xrefPos := f.Len() - hdr
		verifSortEnts(ents)
		writeTable := func(ents []verifXEnt, size int, merge bool, xrefStm int) {
			f.WriteString("xref" + kw)
			if len(ents) == 0 {
				f.WriteString("0 0\n")
			}
			i := 0
			for i < len(ents) {
				j := i + 1
				for j < len(ents) && ents[j].num == ents[j-1].num+1 && merge {
					j++
				}
				fmt.Fprintf(&f, "%d %d%s", ents[i].num, j-i, kw)
				for _, e := range ents[i:j] {
					if e.free {
						fmt.Fprintf(&f, "%010d %05d f%s", 0, e.gen, eol)
					} else {
						fmt.Fprintf(&f, "%010d %05d n%s", e.off, e.gen, eol)
					}
				}
				i = j
			}
			fmt.Fprintf(&f, "trailer%s<</Size %d/Root %d 0 R", kw, size, catalog)
			if prev >= 0 {
				fmt.Fprintf(&f, "/Prev %d", prev)
			}
			if xrefStm >= 0 {
				fmt.Fprintf(&f, "/XRefStm %d", xrefStm)
			}
			f.WriteString(">>\n")
		}
		writeStream := func(stmNum int, ents []verifXEnt, size int, withPrev bool) {
			w2 := 2 + verifrt.Choice("w2", 2)
			w3 := 2
			if verifrt.Tier() > 0 || kind == 2 {
				w3 = 1 + verifrt.Choice("w3", 2)
			}
			var body bytes.Buffer
			var index []int
			i := 0
			for i < len(ents) {
				j := i + 1
				for j < len(ents) && ents[j].num == ents[j-1].num+1 {
					j++
				}
				index = append(index, ents[i].num, j-i)
				for _, e := range ents[i:j] {
					tp, f2, f3 := 1, e.off, e.gen
					if e.free {
						tp, f2 = 0, 0
					} else if stm, ok := compressedIn[e.num]; ok {
						tp, f2, f3 = 2, stm, e.off
					}
					body.WriteByte(byte(tp))
					for b := w2 - 1; b >= 0; b-- {
						body.WriteByte(byte(f2 >> (8 * b)))
					}
					if w3 == 1 && f3 > 255 {
						f3 = 255
					}
					for b := w3 - 1; b >= 0; b-- {
						body.WriteByte(byte(f3 >> (8 * b)))
					}
				}
				i = j
			}
			fmt.Fprintf(&f, "%d 0 obj\n<</Type/XRef/Size %d/Root %d 0 R/W[1 %d %d]/Index[", stmNum, size, catalog, w2, w3)
			for _, x := range index {
				fmt.Fprintf(&f, "%d ", x)
			}
			fmt.Fprintf(&f, "]/Length %d", body.Len())
			if withPrev && prev >= 0 {
				fmt.Fprintf(&f, "/Prev %d", prev)
			}
			f.WriteString(">>\nstream\n")
			f.Write(body.Bytes())
			f.WriteString("\nendstream\nendobj\n")
		}
		switch {
		case kind < 2:
			writeTable(ents, size, kind == 0, -1)
		case kind == 2:
			size = nextStm + 1
			stmNum := nextStm
			nextStm++
			ents = append(ents, verifXEnt{stmNum, 0, xrefPos, false})
			writeStream(stmNum, ents, size, true)
		default:
			// hybrid-reference section (7.5.8.4): the entries of object 1
			// live in a cross-reference stream named by /XRefStm, everything
			// else (and the stream object itself) in the table
			size = nextStm + 1
			stmNum := nextStm
			nextStm++
			var inStm, inTable []verifXEnt
			for _, e := range ents {
				if e.num == 1 {
					inStm = append(inStm, e)
				} else {
					inTable = append(inTable, e)
				}
			}
			stmPos := xrefPos
			if len(inStm) == 0 {
				inStm = append(inStm, verifXEnt{stmNum, 0, stmPos, false})
			} else {
				inTable = append(inTable, verifXEnt{stmNum, 0, stmPos, false})
			}
			writeStream(stmNum, inStm, size, false)
			xrefPos = f.Len() - hdr
			writeTable(inTable, size, true, stmPos)
		}
		fmt.Fprintf(&f, "startxref%s%d%s%%%%EOF\n", kw, xrefPos, kw)
		prev = xrefPos
	}
	data := f.Bytes()
	r, err := NewReader(bytes.NewReader(data), int64(len(data)), nil)
	verifrt.Cover("history serialised")
	verifrt.Assert(err == nil, "conforming file opens")
	if err != nil {
		return
	}
	for k := 1; k <= K; k++ {
		st := state[k]
		for g := 0; g <= st.gen+1; g++ {
			obj, err := r.Get(NewReference(uint32(k), uint16(g)), true)
			var want Object
			if st.defined && g == st.gen {
				want = Integer(st.val)
			}
			verifrt.Assert(err == nil && obj == want, "newest revision that defines or frees the object wins; other generations are null")
		}
	}
	verifrt.Assert(r.GetMeta().Catalog != nil && r.GetMeta().Catalog.Pages == NewReference(uint32(pages), 0), "trailer of the newest revision is used")
}

// Verif_C04_serialisations: one dictionary rendered with solver-chosen white
// space bytes, comments, literal or hex strings (symbolic case and embedded
// white space), #-escaped names and octal escapes; the parsed value does not
// depend on the choices.
func Verif_C04_serialisations() {
	nws := 0
	padded := false
	wsb := func() []byte {
		if padded {
			return []byte{' '} // the padded variant is about the window edge only
		}
		b := verifrt.Byte("ws")
		verifrt.Assume(b == 0 || b == 9 || b == 10 || b == 12 || b == 13 || b == 32)
		out := []byte{b}
		nws++
		// comments at two of the positions (all of them in the thorough tier)
		if (nws == 2 || nws == 4 || verifrt.Tier() > 0) && verifrt.Bool("comment") {
			c := verifrt.Byte("commentbyte")
			verifrt.Assume(c != '\r' && c != '\n')
			out = append(out, '%', c, '\n')
		}
		return out
	}
	payload := verifrt.Bytes("payload", 2)
	var f bytes.Buffer
	f.WriteString("<<")
	// optionally a long comment, so that byte j of the name is the first
	// byte beyond the scanner's first window
	pad := 0
	if verifrt.Bool("padded") {
		padded = true
		pad = scannerBufSize - 3 - verifrt.Len("j", 0, 8)
		f.WriteString("%")
		for i := 0; i < pad; i++ {
			f.WriteByte('c')
		}
		f.WriteString("\n")
	}
	f.Write(wsb())
	// the name /AB, each byte plain or #-escaped
	f.WriteString("/")
	for _, c := range []byte("AB") {
		if verifrt.Bool("escape") {
			hexd := "0123456789abcdef"
			if verifrt.Bool("upperhex") {
				hexd = "0123456789ABCDEF"
			}
			f.Write([]byte{'#', hexd[c>>4], hexd[c&15]})
		} else {
			f.WriteByte(c)
		}
	}
	f.Write(wsb())
	form := 1
	if !padded {
		form = verifrt.Choice("stringform", 3)
	}
	switch form {
	case 0: // hex string with optional white space inside and symbolic case
		f.WriteString("<")
		for _, c := range payload {
			hexd := "0123456789abcdef"
			if verifrt.Bool("upperhex") {
				hexd = "0123456789ABCDEF"
			}
			f.WriteByte(hexd[c>>4])
			if verifrt.Bool("innerws") {
				f.WriteByte(' ')
			}
			f.WriteByte(hexd[c&15])
		}
		f.WriteString(">")
	case 1: // literal string, every byte as a three-digit octal escape
		f.WriteString("(")
		for _, c := range payload {
			f.Write([]byte{'\\', '0' + c>>6, '0' + (c>>3)&7, '0' + c&7})
		}
		f.WriteString(")")
	default: // literal string with a line continuation in the middle
		f.WriteString("(")
		for i, c := range payload {
			f.Write([]byte{'\\', '0' + c>>6, '0' + (c>>3)&7, '0' + c&7})
			if i == 0 {
				f.WriteString("\\\n")
			}
		}
		f.WriteString(")")
	}
	f.Write(wsb())
	f.WriteString("/N")
	f.Write(wsb())
	f.WriteString("12 0 R")
	f.Write(wsb())
	f.WriteString(">>")
	var obj Native
	var ok bool
	if pad > 0 {
		obj, ok = verifParseFrom(bytes.NewReader(f.Bytes()))
	} else {
		obj, ok = verifParseOne(f.Bytes())
	}
	verifrt.Cover("rendered")
	verifrt.Assert(ok, "conforming rendering parses")
	d, isDict := obj.(Dict)
	verifrt.Assert(isDict && len(d) == 2, "a dictionary with two entries")
	s, _ := d["AB"].(String)
	verifrt.Assert(verifrt.Equal(s, payload), "string value independent of its rendering")
	verifrt.Assert(d["N"] == NewReference(12, 0), "reference value independent of white space")
}

var verifLengthBodies = [][]byte{[]byte("abc"), []byte("a endstream b"), []byte("x\ny"), {}}

// Verif_C04_stream_length: a stream whose /Length is missing, wrong (any
// int64), or an unresolvable reference is still delimited by the end-of-line
// that precedes endstream.
func Verif_C04_stream_length() {
	body := verifLengthBodies[verifrt.Choice("body", len(verifLengthBodies))]
	var f bytes.Buffer
	f.WriteString("%PDF-1.7\n")
	o1 := f.Len()
	f.WriteString("1 0 obj\n<</Type/Catalog/Pages 2 0 R>>\nendobj\n")
	o2 := f.Len()
	f.WriteString("2 0 obj\n<</Type/Pages/Kids[]/Count 0>>\nendobj\n")
	o3 := f.Len()
	f.WriteString("3 0 obj\n<</K 7")
	eol := []string{"\n", "\r\n", "\r"}[verifrt.Choice("eol", 3)]
	tail := append(append([]byte{}, body...), []byte(eol+"endstream")...)
	var length int64
	lengthKind := verifrt.Choice("lengthkind", 4)
	switch lengthKind {
	case 0: // missing
	case 1: // any integer
		length = verifrt.Int64("length")
		// excluded by the property: a wrong length that happens to point
		// just before an endstream keyword (possibly after white space)
		for l := 0; l+9 <= len(tail); l++ {
			q := l
			for q < len(tail) && (tail[q] == ' ' || tail[q] == '\r' || tail[q] == '\n') {
				q++
			}
			if l != len(body) && q+9 <= len(tail) && string(tail[q:q+9]) == "endstream" {
				verifrt.Assume(length != int64(l))
			}
		}
		fmt.Fprintf(&f, "/Length %d", length)
	case 2: // unresolvable reference
		f.WriteString("/Length 9 0 R")
	case 3: // reference to a composite
		f.WriteString("/Length 2 0 R")
	}
	f.WriteString(">>\nstream\n")
	f.Write(body)
	f.WriteString(eol)
	f.WriteString("endstream\nendobj\n")
	xref := f.Len()
	fmt.Fprintf(&f, "xref\n0 4\n%010d 65535 f \n%010d 00000 n \n%010d 00000 n \n%010d 00000 n \n", 0, o1, o2, o3)
	fmt.Fprintf(&f, "trailer\n<</Size 4/Root 1 0 R>>\nstartxref\n%d\n%%%%EOF\n", xref)
	data := f.Bytes()
	r, err := NewReader(bytes.NewReader(data), int64(len(data)), nil)
	verifrt.Assert(err == nil, "file opens")
	if err != nil {
		return
	}
	obj, err := r.Get(NewReference(3, 0), true)
	verifrt.Cover("stream read")
	verifrt.Assert(err == nil, "stream object is readable whatever /Length says")
	stm, isStream := obj.(*Stream)
	verifrt.Assert(isStream, "object is a stream")
	if !isStream {
		return
	}
	raw, _, _ := verifrt.ReadAll(stm.NewReader(), 64, 8)
	verifrt.Assert(bytes.Equal(raw, body), "stream is delimited by the end-of-line before endstream")
	verifrt.Assert(stm.Dict["K"] == Integer(7), "stream dictionary intact")
}
