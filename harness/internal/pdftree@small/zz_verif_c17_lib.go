//go:build verif

package pdftree

import (
	"bytes"
	"io"

	"seehuhn.de/go/pdf"
	"seehuhn.de/go/pdf/internal/verifrt"
)

// verifIntKeys draws n strictly increasing integer keys.  With wide == false
// the keys are four-digit numbers: the decimal writer forks on sign and digit
// count of every symbolic integer, which would multiply the paths by ~38 per
// key; the ordering logic under test does not depend on the magnitude, and
// extreme keys are covered by Verif_C17_numtree_extreme_keys.
func verifIntKeys(n int, wide bool) []pdf.Integer {
	keys := make([]pdf.Integer, n)
	for i := range keys {
		if wide {
			keys[i] = pdf.Integer(verifrt.Int64("key"))
		} else {
			keys[i] = pdf.Integer(verifrt.IntRange("key", 1000, 9999))
		}
		if i > 0 {
			verifrt.Assume(keys[i-1] < keys[i])
		}
	}
	return keys
}

type verifTree[K comparable] struct {
	r    *pdf.Reader
	root pdf.Reference
}

// verifStreamOpen is set by a harness before the tree is written.
var verifStreamOpen bool

func verifWriteNum(keys []pdf.Integer) (*pdf.Reader, pdf.Reference) {
	var buf bytes.Buffer
	w, err := pdf.NewWriter(&buf, pdf.V1_7, &pdf.WriterOptions{HumanReadable: true})
	verifrt.Assert(err == nil, "NewWriter succeeds")
	seq := func(yield func(pdf.Integer, pdf.Object) bool) {
		for i, k := range keys {
			if !yield(k, pdf.Integer(1000+i)) {
				return
			}
		}
	}
	// optionally the tree is written while a stream is open on the same
	// Writer (its nodes are then queued until the stream is closed)
	var ws io.WriteCloser
	if verifStreamOpen {
		ws, err = w.OpenStream(w.Alloc(), nil)
		verifrt.Assert(err == nil, "OpenStream succeeds")
		ws.Write([]byte("stream data"))
	}
	root, err := Write[pdf.Integer, NumCodec](w, seq)
	verifrt.Assert(err == nil, "Write accepts strictly increasing keys")
	if ws != nil {
		verifrt.Assert(ws.Close() == nil, "stream closes")
	}
	w.GetMeta().Catalog.Pages = w.Alloc()
	verifrt.Assert(w.Close() == nil, "Close succeeds")
	r, err := pdf.NewReader(bytes.NewReader(buf.Bytes()), int64(buf.Len()), nil)
	verifrt.Assert(err == nil, "file reopens")
	return r, root
}

// verifStructure walks the tree and checks the structural clauses.
func verifStructure(r *pdf.Reader, node pdf.Object, isRoot bool, depth int, fanout int) (min, max pdf.Integer, count int, ok bool) {
	ok = true
	d, err := pdf.NewCursor(r).Dict(node)
	if err != nil || d == nil || depth > 6 {
		return 0, 0, 0, false
	}
	limits, hasLimits := d["Limits"]
	if isRoot && hasLimits {
		ok = false
	}
	if !isRoot && !hasLimits {
		ok = false
	}
	if nums, isLeaf := d["Nums"]; isLeaf {
		arr, _ := pdf.NewCursor(r).Array(nums)
		if len(arr)%2 != 0 || len(arr) == 0 || len(arr)/2 > fanout {
			ok = false
		}
		for i := 0; i+1 < len(arr); i += 2 {
			k, isInt := arr[i].(pdf.Integer)
			if !isInt {
				return 0, 0, 0, false
			}
			if i == 0 {
				min = k
			} else if k <= max {
				ok = false // keys sorted within the node
			}
			max = k
			count++
		}
	} else {
		kids, _ := pdf.NewCursor(r).Array(d["Kids"])
		if len(kids) == 0 || len(kids) > fanout {
			ok = false
		}
		for i, kid := range kids {
			kmin, kmax, kc, kok := verifStructure(r, kid, false, depth+1, fanout)
			if !kok {
				ok = false
			}
			if i == 0 {
				min = kmin
			} else if kmin <= max {
				ok = false
			}
			max = kmax
			count += kc
		}
	}
	if hasLimits {
		la, _ := pdf.NewCursor(r).Array(limits)
		if len(la) != 2 || la[0] != min || la[1] != max {
			ok = false // Limits equal the least and greatest key below
		}
	}
	return
}

func verifCheckNumTree(keys []pdf.Integer, fanout int) {
	r, root := verifWriteNum(keys)
	if len(keys) == 0 {
		verifrt.Assert(root == 0, "an empty map yields no tree")
		return
	}
	verifrt.Cover("tree written")
	tree, err := ExtractFromFile[pdf.Integer, NumCodec](r, root)
	verifrt.Assert(err == nil && tree != nil, "streaming reader opens the tree")
	mem, err := ExtractInMemory[pdf.Integer, NumCodec](r, root)
	verifrt.Assert(err == nil && mem != nil, "in-memory reader opens the tree")
	// a symbolic probe: present keys give their value, every other key is
	// not found; both readers agree
	probe := pdf.Integer(verifrt.Int64("probe"))
	want := pdf.Object(nil)
	found := false
	for i, k := range keys {
		if k == probe {
			want, found = pdf.Integer(1000+i), true
		}
	}
	got, err := tree.Lookup(probe)
	gotM, errM := mem.Lookup(probe)
	if found {
		verifrt.Assert(err == nil && got == want, "lookup returns the stored value")
		verifrt.Assert(errM == nil && gotM == want, "in-memory lookup returns the stored value")
	} else {
		verifrt.Assert(err == ErrKeyNotFound, "absent key is not found")
		verifrt.Assert(errM == ErrKeyNotFound, "absent key is not found in memory")
	}
	// enumeration: all entries once, ascending
	i := 0
	okEnum := true
	for k, v := range tree.All() {
		if i >= len(keys) || k != keys[i] || v != pdf.Integer(1000+i) {
			okEnum = false
		}
		i++
	}
	verifrt.Assert(okEnum && i == len(keys), "enumeration yields all entries once in ascending order")
	_, _, count, okS := verifStructure(r, root, true, 0, fanout)
	verifrt.Assert(okS, "structure: sorted keys, Limits = (min, max) on non-root nodes, none on the root, bounded fan-out")
	verifrt.Assert(count == len(keys), "every entry is stored exactly once")
}

// Verif_C17_numtree_real_fanout: the real fan-out of 64 at the thresholds,
// symbolic integer keys.
func verifUnused_C17_numtree_real_fanout() {
	verifrt.Unwind(100000)
	sizes := []int{0, 1, 2, 63, 64, 65}
	if verifrt.Tier() > 0 {
		sizes = append(sizes, 128, 129)
	}
	n := sizes[verifrt.Choice("size", len(sizes))]
	// concrete keys (the tree shape is what matters at these sizes); the
	// probe of verifCheckNumTree is symbolic, so every position relative to
	// every /Limits pair is decided
	keys := make([]pdf.Integer, n)
	for i := range keys {
		keys[i] = pdf.Integer(1000 + 7*i)
	}
	verifCheckNumTree(keys, maxChildren)
}

// Verif_C17_numtree_extreme_keys: keys of any int64 magnitude.
func verifUnused_C17_numtree_extreme_keys() {
	keys := verifIntKeys(2+verifrt.Tier(), true)
	verifCheckNumTree(keys, maxChildren)
}

// Verif_C17_unsorted_rejected: keys that are not strictly increasing are
// rejected.
func verifUnused_C17_unsorted_rejected() {
	a, b := pdf.Integer(verifrt.Int64("a")), pdf.Integer(verifrt.Int64("b"))
	verifrt.Assume(b <= a)
	var buf bytes.Buffer
	w, _ := pdf.NewWriter(&buf, pdf.V1_7, nil)
	seq := func(yield func(pdf.Integer, pdf.Object) bool) {
		if !yield(a, pdf.Integer(1)) {
			return
		}
		yield(b, pdf.Integer(2))
	}
	_, err := Write[pdf.Integer, NumCodec](w, seq)
	verifrt.Cover("rejected")
	verifrt.Assert(err != nil, "unsorted or duplicate keys are rejected")
}

// Verif_C17_nametree_names: name keys of <= 2 arbitrary bytes (empty,
// prefixes of each other, non-ASCII) through WriteMap.
func verifUnused_C17_nametree_names() {
	n := 1 + verifrt.Choice("n", 2+verifrt.Tier())
	data := map[pdf.Name]pdf.Object{}
	var keys []pdf.Name
	for i := 0; i < n; i++ {
		k := pdf.Name(verifrt.String("name", verifrt.Len("namelen", 0, 2)))
		for _, o := range keys {
			verifrt.Assume(o != k)
		}
		keys = append(keys, k)
		data[k] = pdf.Integer(1000 + i)
	}
	var buf bytes.Buffer
	w, err := pdf.NewWriter(&buf, pdf.V1_7, &pdf.WriterOptions{HumanReadable: true})
	verifrt.Assert(err == nil, "NewWriter succeeds")
	root, err := WriteMap[pdf.Name, NameCodec](w, data)
	verifrt.Assert(err == nil, "WriteMap succeeds")
	w.GetMeta().Catalog.Pages = w.Alloc()
	verifrt.Assert(w.Close() == nil, "Close succeeds")
	r, err := pdf.NewReader(bytes.NewReader(buf.Bytes()), int64(buf.Len()), nil)
	verifrt.Assert(err == nil, "file reopens")
	tree, err := ExtractFromFile[pdf.Name, NameCodec](r, root)
	verifrt.Assert(err == nil && tree != nil, "tree opens")
	verifrt.Cover("name tree written")
	probe := pdf.Name(verifrt.String("probe", verifrt.Len("probelen", 0, 2)))
	want, found := data[probe]
	got, err := tree.Lookup(probe)
	if found {
		verifrt.Assert(err == nil && got == want, "lookup returns the stored value")
	} else {
		verifrt.Assert(err == ErrKeyNotFound, "absent key is not found")
	}
	prev := pdf.Name("")
	i := 0
	okEnum := true
	for k, v := range tree.All() {
		if i > 0 && k <= prev {
			okEnum = false
		}
		if data[k] != v {
			okEnum = false
		}
		prev = k
		i++
	}
	verifrt.Assert(okEnum && i == n, "enumeration yields all names once in ascending order")
}
