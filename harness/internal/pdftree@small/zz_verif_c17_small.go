//go:build verif

package pdftree

import (
	"seehuhn.de/go/pdf/internal/verifrt"
)

// Verif_C17_numtree_small_fanout runs the tree writer with its fan-out
// constant reduced to 3 (checked source substitution, everything else is the
// current code), so that trees of three levels need only ~10-28 keys; keys
// are symbolic.
func Verif_C17_numtree_small_fanout() {
	verifrt.Unwind(100000)
	max := 13
	if verifrt.Tier() > 0 {
		max = 28
	}
	n := verifrt.Len("n", 0, max)
	verifStreamOpen = verifrt.Choice("streamopen", 2) == 1
	keys := verifIntKeys(n, false)
	verifCheckNumTree(keys, maxChildren)
}
