//go:build verif

// Package verifrt is the harness runtime.  Under the symbolic engine (gosym)
// every function here is intercepted: nondeterministic draws become SMT
// variables, Assume/Assert become solver queries.  Compiled natively (replay,
// translator validation) the draws are read from a replay case and Assert
// fails the case.
package verifrt

import (
	"encoding/json"
	"fmt"
	"os"
	"strconv"
	"sync"
	"testing"
	"time"
)

type Draw struct {
	Name  string `json:"name"`
	Kind  string `json:"kind"`
	Value uint64 `json:"value"`
}

type Case struct {
	Harness string `json:"harness"`
	Tier    int    `json:"tier"`
	Draws   []Draw `json:"draws"`
	Expect  string `json:"expect,omitempty"` // label of the violation to confirm
}

type Result struct {
	Status string   `json:"status"`
	Label  string   `json:"label"`
	Msg    string   `json:"msg"`
	Obs    []string `json:"obs"`
}

type state struct {
	c   *Case
	pos int
	seq map[string]int
	res Result

	// layout-dependent draws (LenLayout): the range asked for natively and
	// an optional override of the recorded value
	layoutLo, layoutHi int
	layoutSeen         bool
	override           *int
}

var cur *state

type assumeFail struct{}
type assertFail struct{ label string }
type divergence struct{ msg string }

func next(name string) uint64 {
	if cur == nil {
		panic("verifrt: nondeterministic draw outside a replay")
	}
	k := cur.seq[name]
	cur.seq[name] = k + 1
	want := name + "#" + strconv.Itoa(k)
	if cur.pos >= len(cur.c.Draws) {
		panic(divergence{"ran out of draws at " + want})
	}
	d := cur.c.Draws[cur.pos]
	if d.Name != want {
		panic(divergence{"expected draw " + d.Name + ", harness asked for " + want})
	}
	cur.pos++
	return d.Value
}

func Byte(name string) byte     { return byte(next(name)) }
func Uint16(name string) uint16 { return uint16(next(name)) }
func Uint32(name string) uint32 { return uint32(next(name)) }
func Uint64(name string) uint64 { return next(name) }
func Int64(name string) int64   { return int64(next(name)) }
func Int32(name string) int32   { return int32(next(name)) }
func Int(name string) int       { return int(int64(next(name))) }
func Bool(name string) bool     { return next(name) == 1 }

func Bytes(name string, n int) []byte {
	b := make([]byte, n)
	for i := range b {
		b[i] = Byte(name)
	}
	return b
}

func String(name string, n int) string { return string(Bytes(name, n)) }

// FixedBytes returns n arbitrary but fixed bytes: the engine picks concrete
// pseudo-random values (no fork) and records them, native replays read them.
func FixedBytes(name string, n int) []byte { return Bytes(name, n) }

// RandReader is a replacement for crypto/rand.Reader built on FixedBytes.
type RandReader struct{}

func (RandReader) Read(p []byte) (int, error) {
	copy(p, FixedBytes("rand", len(p)))
	return len(p), nil
}

// IntRange draws an integer assumed to lie in [lo, hi] (kept symbolic).
func IntRange(name string, lo, hi int) int {
	v := Int(name)
	if v < lo || v > hi {
		panic(assumeFail{})
	}
	return v
}

// Len draws a length in [lo, hi]; the engine forks over every feasible value.
func Len(name string, lo, hi int) int { return IntRange(name, lo, hi) }

// LenLayout is Len for an index whose meaning depends on the byte layout of
// a file that differs between the engine (identity zlib) and the native build
// (real zlib), such as "the k-th ReadAt call".  When a counterexample does not
// reproduce with the recorded value, the native replay tries every value of
// the native range (at most one LenLayout draw per harness).
func LenLayout(name string, lo, hi int) int {
	v := Int("layout:" + name)
	if cur != nil {
		cur.layoutLo, cur.layoutHi, cur.layoutSeen = lo, hi, true
		if cur.override != nil {
			v = *cur.override
		}
	}
	if v < lo || v > hi {
		panic(assumeFail{})
	}
	return v
}

// Choice draws one of k alternatives 0..k-1; the engine forks over them.
func Choice(name string, k int) int { return IntRange(name, 0, k-1) }

func Assume(c bool) {
	if !c {
		panic(assumeFail{})
	}
}

func Assert(c bool, label string) {
	if !c {
		panic(assertFail{label})
	}
}

func Cover(label string)      {}
func Unwind(n int)            {}

// TerminationBound(n) is Unwind(n) with the difference that exceeding the
// bound is a violation ("terminates"): n is chosen far above what any
// terminating run on the harness's inputs needs.  The native replay confirms
// it by not finishing within its deadline.
func TerminationBound(n int) {}
func MapOrderAll()            {}
func AllocLimit(n int64)      {}
func Symbolic() bool          { return false }
func Concretize(x int) int    { return x }
func ConcretizeByte(b byte) byte { return b }

// Tier is 0 for the quick tier and 1 for the thorough tier.
func Tier() int {
	if cur == nil {
		return 0
	}
	return cur.c.Tier
}

// Observe records a value; engine and native runs must agree on it.
func Observe(name string, v any) {
	if cur == nil {
		return
	}
	cur.res.Obs = append(cur.res.Obs, name+"="+render(v))
}

func render(v any) string {
	switch x := v.(type) {
	case nil:
		return "nil"
	case bool:
		return strconv.FormatBool(x)
	case string:
		return strconv.Quote(x)
	case []byte:
		return fmt.Sprintf("x:%x", x)
	case int:
		return strconv.FormatInt(int64(x), 10)
	case int8:
		return strconv.FormatInt(int64(x), 10)
	case int16:
		return strconv.FormatInt(int64(x), 10)
	case int32:
		return strconv.FormatInt(int64(x), 10)
	case int64:
		return strconv.FormatInt(x, 10)
	case uint:
		return strconv.FormatUint(uint64(x), 10)
	case uint8:
		return strconv.FormatUint(uint64(x), 10)
	case uint16:
		return strconv.FormatUint(uint64(x), 10)
	case uint32:
		return strconv.FormatUint(uint64(x), 10)
	case uint64:
		return strconv.FormatUint(x, 10)
	case float64:
		return strconv.FormatFloat(x, 'g', -1, 64)
	case float32:
		return strconv.FormatFloat(float64(x), 'g', -1, 32)
	}
	return fmt.Sprintf("<%T>", v)
}

func runCase(c *Case, fn func()) (res Result) {
	r, _ := runCaseWith(c, fn, nil)
	return r
}

func runCaseWith(c *Case, fn func(), override *int) (res Result, st *state) {
	st = &state{c: c, seq: map[string]int{}, override: override}
	cur = st
	defer func() {
		cur = nil
		res = st.res
		r := recover()
		switch r := r.(type) {
		case nil:
			if st.pos != len(c.Draws) {
				res.Status = "diverged"
				res.Msg = fmt.Sprintf("harness consumed %d of %d draws", st.pos, len(c.Draws))
			} else {
				res.Status = "ok"
			}
		case assumeFail:
			res.Status = "assume"
		case assertFail:
			res.Status = "assert"
			res.Label = r.label
		case divergence:
			res.Status = "diverged"
			res.Msg = r.msg
		default:
			res.Status = "panic"
			res.Msg = fmt.Sprint(r)
		}
	}()
	fn()
	return
}

// RunReplay runs the cases listed in $VERIF_REPLAY and writes the results to
// $VERIF_REPLAY_OUT.
func RunReplay(t *testing.T, fns map[string]func()) {
	in, out := os.Getenv("VERIF_REPLAY"), os.Getenv("VERIF_REPLAY_OUT")
	if in == "" {
		t.Skip("VERIF_REPLAY not set")
	}
	b, err := os.ReadFile(in)
	if err != nil {
		t.Fatal(err)
	}
	var cases []Case
	if err := json.Unmarshal(b, &cases); err != nil {
		t.Fatal(err)
	}
	results := make([]Result, 0, len(cases))
	flush := func() {
		rb, _ := json.Marshal(results)
		os.WriteFile(out, rb, 0o644)
	}
	for i := range cases {
		c := &cases[i]
		fn := fns[c.Harness]
		if fn == nil {
			results = append(results, Result{Status: "diverged", Msg: "unknown harness " + c.Harness})
			continue
		}
		type outcome struct {
			r  Result
			st *state
		}
		try := func(override *int, note string) (Result, *state) {
			done := make(chan outcome, 1)
			go func() { r, st := runCaseWith(c, fn, override); done <- outcome{r, st} }()
			select {
			case o := <-done:
				return o.r, o.st
			case <-time.After(replayDeadline()):
				results = append(results, Result{Status: "timeout", Msg: "no result within the deadline" + note})
				flush()
				os.Exit(3)
			}
			panic("unreachable")
		}
		matches := func(r Result) bool {
			switch c.Expect {
			case "no-panic":
				return r.Status == "panic"
			case "terminates":
				return false // only a timeout confirms it
			}
			return r.Status == "assert" && r.Label == c.Expect
		}
		r, st := try(nil, "")
		if c.Expect != "" && !matches(r) && st != nil && st.layoutSeen {
			// the recorded index does not reproduce: the byte layout differs;
			// look for the same violation at another index of the native range
			for v := st.layoutLo; v <= st.layoutHi; v++ {
				vv := v
				r2, _ := try(&vv, fmt.Sprintf(" (layout index %d)", vv))
				if matches(r2) {
					r2.Msg += fmt.Sprintf(" (layout index %d)", vv)
					r = r2
					break
				}
			}
		}
		results = append(results, r)
	}
	flush()
}

func replayDeadline() time.Duration {
	if s := os.Getenv("VERIF_REPLAY_DEADLINE_S"); s != "" {
		if n, err := strconv.Atoi(s); err == nil && n > 0 {
			return time.Duration(n) * time.Second
		}
	}
	return 60 * time.Second
}

// ---------------------------------------------------------------- helpers
// Ordinary Go code (interpreted by the engine like any other code).

// Sink is an in-memory io.WriteCloser.
type Sink struct {
	B      []byte
	Closed bool
	Writes int
}

func (s *Sink) Write(p []byte) (int, error) {
	s.B = append(s.B, p...)
	s.Writes++
	return len(p), nil
}

func (s *Sink) Close() error {
	s.Closed = true
	return nil
}

type eofError struct{}

func (eofError) Error() string { return "EOF" }

// ChunkReader returns Data in pieces of at most Chunk bytes, then ErrEOF.
type ChunkReader struct {
	Data  []byte
	Chunk int
	EOF   error // returned at the end of Data (io.EOF, set by the harness)
	Reads int
}

func (r *ChunkReader) Read(p []byte) (int, error) {
	r.Reads++
	if len(r.Data) == 0 {
		return 0, r.EOF
	}
	n := len(p)
	if r.Chunk > 0 && n > r.Chunk {
		n = r.Chunk
	}
	if n > len(r.Data) {
		n = len(r.Data)
	}
	copy(p, r.Data[:n])
	r.Data = r.Data[n:]
	return n, nil
}

// Reader is the interface of io.Reader (kept local to avoid importing io).
type Reader interface {
	Read(p []byte) (int, error)
}

// ReadAll reads r with a buffer of bufsz bytes until an error is returned or
// maxReads calls were made.  It returns the data, the final error and
// whether the loop ended because of maxReads.
func ReadAll(r Reader, bufsz, maxReads int) (out []byte, err error, exhausted bool) {
	buf := make([]byte, bufsz)
	for i := 0; i < maxReads; i++ {
		n, e := r.Read(buf)
		out = append(out, buf[:n]...)
		if e != nil {
			return out, e, false
		}
	}
	return out, nil, true
}

// Equal compares byte slices without branching per byte.
func Equal(a, b []byte) bool {
	if len(a) != len(b) {
		return false
	}
	same := true
	for i := range a {
		if a[i] != b[i] {
			same = false
		}
	}
	return same
}

// ---------------------------------------------------------------- scheduler
//
// A cooperative scheduler for the concurrency harnesses.  The scheduling
// logic below is ordinary Go and is interpreted by the engine exactly as it
// runs natively; only spawn/switchTo/exitTo (baton passing between
// goroutines) and the hb* hooks (happens-before edges for the engine's race
// detector) are primitives.  The library's synchronisation sites are
// rewritten (checked source substitution, see harness/@sched/patch.json) to
// call MuLock/MuUnlock/ChanWait/ChanClose, which are scheduling points while
// a scheduler is active and plain operations otherwise.

type gstate struct {
	done    bool
	waitMu  *sync.Mutex
	waitCh  chan struct{}
	waitAll bool
}

type scheduler struct {
	gs     []*gstate
	cur    int
	locked map[*sync.Mutex]bool
	closed map[chan struct{}]bool
	steps  int
}

var sched *scheduler

// native baton passing
var resume []chan struct{}

func spawn(id int, f func()) {
	for len(resume) <= id {
		resume = append(resume, make(chan struct{}))
	}
	go func() {
		<-resume[id]
		defer func() {
			// a failure in a goroutine is handed to goroutine 0, which
			// re-raises it where the replay driver can see it
			if r := recover(); r != nil {
				pendingPanic = r
				resume[0] <- struct{}{}
			}
		}()
		f()
	}()
}

var pendingPanic any

func switchTo(from, to int) {
	for len(resume) <= max(from, to) {
		resume = append(resume, make(chan struct{}))
	}
	resume[to] <- struct{}{}
	<-resume[from]
	if from == 0 && pendingPanic != nil {
		r := pendingPanic
		pendingPanic = nil
		panic(r)
	}
}

func exitTo(to int) { resume[to] <- struct{}{} }

func hbRelease(key any) {}
func hbAcquire(key any) {}
func hbFork(child int)  {}
func schedReset()       {}

// StartSched begins a scheduled section; the caller is goroutine 0.
func StartSched() {
	resume = nil
	pendingPanic = nil
	schedReset()
	sched = &scheduler{gs: []*gstate{{}}, locked: map[*sync.Mutex]bool{}, closed: map[chan struct{}]bool{}}
}

// Go starts f as a new goroutine under the scheduler.
func Go(f func()) {
	s := sched
	id := len(s.gs)
	s.gs = append(s.gs, &gstate{})
	hbFork(id)
	spawn(id, func() {
		f()
		hbRelease(id)
		s.gs[id].done = true
		s.pick(true)
	})
	s.pick(false)
}

func (s *scheduler) enabled() []int {
	var en []int
	for i, g := range s.gs {
		switch {
		case g.done:
		case g.waitMu != nil && s.locked[g.waitMu]:
		case g.waitCh != nil && !s.closed[g.waitCh]:
		case g.waitAll && !s.othersDone(i):
		default:
			en = append(en, i)
		}
	}
	return en
}

func (s *scheduler) othersDone(me int) bool {
	for i, g := range s.gs {
		if i != me && !g.done {
			return false
		}
	}
	return true
}

// pick chooses the goroutine that runs next (a solver-decided choice among
// the enabled ones) and passes the baton.
func (s *scheduler) pick(exiting bool) {
	s.steps++
	en := s.enabled()
	if len(en) == 0 {
		Assert(false, "no deadlock")
		panic("deadlock")
	}
	k := 0
	if len(en) > 1 {
		k = Choice("sched", len(en))
	}
	next := en[k]
	prev := s.cur
	if next == prev && !exiting {
		return
	}
	s.cur = next
	if exiting {
		exitTo(next)
	} else {
		switchTo(prev, next)
	}
}

// MuLock is m.Lock() as a scheduling point.
func MuLock(m *sync.Mutex) {
	s := sched
	if s == nil {
		m.Lock()
		return
	}
	s.pick(false)
	for s.locked[m] {
		g := s.gs[s.cur]
		g.waitMu = m
		s.pick(false)
		g.waitMu = nil
	}
	s.locked[m] = true
	hbAcquire(m)
}

// MuUnlock is m.Unlock() as a scheduling point.
func MuUnlock(m *sync.Mutex) {
	s := sched
	if s == nil {
		m.Unlock()
		return
	}
	Assert(s.locked[m], "unlock of a locked mutex")
	hbRelease(m)
	delete(s.locked, m)
	// no scheduling point here: a switch after an unlock is equivalent to a
	// switch before this goroutine's next acquire (the operations in between
	// are not synchronisation operations; races among them are found by the
	// happens-before detector whatever the interleaving)
}

// ChanWait is <-c (for channels that are only ever closed).
func ChanWait(c chan struct{}) {
	s := sched
	if s == nil {
		<-c
		return
	}
	s.pick(false)
	if !s.closed[c] {
		g := s.gs[s.cur]
		g.waitCh = c
		s.pick(false)
		g.waitCh = nil
	}
	hbAcquire(c)
}

// ChanClose is close(c).
func ChanClose(c chan struct{}) {
	s := sched
	if s == nil {
		close(c)
		return
	}
	hbRelease(c)
	s.closed[c] = true
	close(c)
}

// Yield is an explicit scheduling point for harness code.
func Yield() {
	if sched != nil {
		sched.pick(false)
	}
}

// WaitAll blocks goroutine 0 until every other goroutine has finished and
// ends the scheduled section.
func WaitAll() {
	s := sched
	g := s.gs[0]
	g.waitAll = true
	for !s.othersDone(0) {
		s.pick(false)
	}
	g.waitAll = false
	for id := 1; id < len(s.gs); id++ {
		hbAcquire(id)
	}
	sched = nil
}
