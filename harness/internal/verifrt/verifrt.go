//go:build verif

// Package verifrt is the harness runtime.  Under the symbolic engine (gosym)
// every function here is intercepted: nondeterministic draws become SMT
// variables, Assume/Assert become solver queries.  Compiled natively (replay,
// translator validation) the draws are read from a replay case and Assert
// fails the case.
package verifrt

import (
	"encoding/json"
	"fmt"
	"os"
	"strconv"
	"testing"
	"time"
)

type Draw struct {
	Name  string `json:"name"`
	Kind  string `json:"kind"`
	Value uint64 `json:"value"`
}

type Case struct {
	Harness string `json:"harness"`
	Tier    int    `json:"tier"`
	Draws   []Draw `json:"draws"`
}

type Result struct {
	Status string   `json:"status"`
	Label  string   `json:"label"`
	Msg    string   `json:"msg"`
	Obs    []string `json:"obs"`
}

type state struct {
	c   *Case
	pos int
	seq map[string]int
	res Result
}

var cur *state

type assumeFail struct{}
type assertFail struct{ label string }
type divergence struct{ msg string }

func next(name string) uint64 {
	if cur == nil {
		panic("verifrt: nondeterministic draw outside a replay")
	}
	k := cur.seq[name]
	cur.seq[name] = k + 1
	want := name + "#" + strconv.Itoa(k)
	if cur.pos >= len(cur.c.Draws) {
		panic(divergence{"ran out of draws at " + want})
	}
	d := cur.c.Draws[cur.pos]
	if d.Name != want {
		panic(divergence{"expected draw " + d.Name + ", harness asked for " + want})
	}
	cur.pos++
	return d.Value
}

func Byte(name string) byte     { return byte(next(name)) }
func Uint16(name string) uint16 { return uint16(next(name)) }
func Uint32(name string) uint32 { return uint32(next(name)) }
func Uint64(name string) uint64 { return next(name) }
func Int64(name string) int64   { return int64(next(name)) }
func Int32(name string) int32   { return int32(next(name)) }
func Int(name string) int       { return int(int64(next(name))) }
func Bool(name string) bool     { return next(name) == 1 }

func Bytes(name string, n int) []byte {
	b := make([]byte, n)
	for i := range b {
		b[i] = Byte(name)
	}
	return b
}

func String(name string, n int) string { return string(Bytes(name, n)) }

// FixedBytes returns n arbitrary but fixed bytes: the engine picks concrete
// pseudo-random values (no fork) and records them, native replays read them.
func FixedBytes(name string, n int) []byte { return Bytes(name, n) }

// RandReader is a replacement for crypto/rand.Reader built on FixedBytes.
type RandReader struct{}

func (RandReader) Read(p []byte) (int, error) {
	copy(p, FixedBytes("rand", len(p)))
	return len(p), nil
}

// IntRange draws an integer assumed to lie in [lo, hi] (kept symbolic).
func IntRange(name string, lo, hi int) int {
	v := Int(name)
	if v < lo || v > hi {
		panic(assumeFail{})
	}
	return v
}

// Len draws a length in [lo, hi]; the engine forks over every feasible value.
func Len(name string, lo, hi int) int { return IntRange(name, lo, hi) }

// Choice draws one of k alternatives 0..k-1; the engine forks over them.
func Choice(name string, k int) int { return IntRange(name, 0, k-1) }

func Assume(c bool) {
	if !c {
		panic(assumeFail{})
	}
}

func Assert(c bool, label string) {
	if !c {
		panic(assertFail{label})
	}
}

func Cover(label string)      {}
func Unwind(n int)            {}
func MapOrderAll()            {}
func AllocLimit(n int64)      {}
func Symbolic() bool          { return false }
func Concretize(x int) int    { return x }
func ConcretizeByte(b byte) byte { return b }

// Tier is 0 for the quick tier and 1 for the thorough tier.
func Tier() int {
	if cur == nil {
		return 0
	}
	return cur.c.Tier
}

// Observe records a value; engine and native runs must agree on it.
func Observe(name string, v any) {
	if cur == nil {
		return
	}
	cur.res.Obs = append(cur.res.Obs, name+"="+render(v))
}

func render(v any) string {
	switch x := v.(type) {
	case nil:
		return "nil"
	case bool:
		return strconv.FormatBool(x)
	case string:
		return strconv.Quote(x)
	case []byte:
		return fmt.Sprintf("x:%x", x)
	case int:
		return strconv.FormatInt(int64(x), 10)
	case int8:
		return strconv.FormatInt(int64(x), 10)
	case int16:
		return strconv.FormatInt(int64(x), 10)
	case int32:
		return strconv.FormatInt(int64(x), 10)
	case int64:
		return strconv.FormatInt(x, 10)
	case uint:
		return strconv.FormatUint(uint64(x), 10)
	case uint8:
		return strconv.FormatUint(uint64(x), 10)
	case uint16:
		return strconv.FormatUint(uint64(x), 10)
	case uint32:
		return strconv.FormatUint(uint64(x), 10)
	case uint64:
		return strconv.FormatUint(x, 10)
	case float64:
		return strconv.FormatFloat(x, 'g', -1, 64)
	case float32:
		return strconv.FormatFloat(float64(x), 'g', -1, 32)
	}
	return fmt.Sprintf("<%T>", v)
}

func runCase(c *Case, fn func()) (res Result) {
	st := &state{c: c, seq: map[string]int{}}
	cur = st
	defer func() {
		cur = nil
		res = st.res
		r := recover()
		switch r := r.(type) {
		case nil:
			if st.pos != len(c.Draws) {
				res.Status = "diverged"
				res.Msg = fmt.Sprintf("harness consumed %d of %d draws", st.pos, len(c.Draws))
			} else {
				res.Status = "ok"
			}
		case assumeFail:
			res.Status = "assume"
		case assertFail:
			res.Status = "assert"
			res.Label = r.label
		case divergence:
			res.Status = "diverged"
			res.Msg = r.msg
		default:
			res.Status = "panic"
			res.Msg = fmt.Sprint(r)
		}
	}()
	fn()
	return
}

// RunReplay runs the cases listed in $VERIF_REPLAY and writes the results to
// $VERIF_REPLAY_OUT.
func RunReplay(t *testing.T, fns map[string]func()) {
	in, out := os.Getenv("VERIF_REPLAY"), os.Getenv("VERIF_REPLAY_OUT")
	if in == "" {
		t.Skip("VERIF_REPLAY not set")
	}
	b, err := os.ReadFile(in)
	if err != nil {
		t.Fatal(err)
	}
	var cases []Case
	if err := json.Unmarshal(b, &cases); err != nil {
		t.Fatal(err)
	}
	results := make([]Result, 0, len(cases))
	flush := func() {
		rb, _ := json.Marshal(results)
		os.WriteFile(out, rb, 0o644)
	}
	for i := range cases {
		c := &cases[i]
		fn := fns[c.Harness]
		if fn == nil {
			results = append(results, Result{Status: "diverged", Msg: "unknown harness " + c.Harness})
			continue
		}
		done := make(chan Result, 1)
		go func() { done <- runCase(c, fn) }()
		select {
		case r := <-done:
			results = append(results, r)
		case <-time.After(60 * time.Second):
			results = append(results, Result{Status: "timeout", Msg: "no result within 60s"})
			flush()
			os.Exit(3)
		}
	}
	flush()
}

// ---------------------------------------------------------------- helpers
// Ordinary Go code (interpreted by the engine like any other code).

// Sink is an in-memory io.WriteCloser.
type Sink struct {
	B      []byte
	Closed bool
	Writes int
}

func (s *Sink) Write(p []byte) (int, error) {
	s.B = append(s.B, p...)
	s.Writes++
	return len(p), nil
}

func (s *Sink) Close() error {
	s.Closed = true
	return nil
}

type eofError struct{}

func (eofError) Error() string { return "EOF" }

// ChunkReader returns Data in pieces of at most Chunk bytes, then ErrEOF.
type ChunkReader struct {
	Data  []byte
	Chunk int
	EOF   error // returned at the end of Data (io.EOF, set by the harness)
	Reads int
}

func (r *ChunkReader) Read(p []byte) (int, error) {
	r.Reads++
	if len(r.Data) == 0 {
		return 0, r.EOF
	}
	n := len(p)
	if r.Chunk > 0 && n > r.Chunk {
		n = r.Chunk
	}
	if n > len(r.Data) {
		n = len(r.Data)
	}
	copy(p, r.Data[:n])
	r.Data = r.Data[n:]
	return n, nil
}

// Reader is the interface of io.Reader (kept local to avoid importing io).
type Reader interface {
	Read(p []byte) (int, error)
}

// ReadAll reads r with a buffer of bufsz bytes until an error is returned or
// maxReads calls were made.  It returns the data, the final error and
// whether the loop ended because of maxReads.
func ReadAll(r Reader, bufsz, maxReads int) (out []byte, err error, exhausted bool) {
	buf := make([]byte, bufsz)
	for i := 0; i < maxReads; i++ {
		n, e := r.Read(buf)
		out = append(out, buf[:n]...)
		if e != nil {
			return out, e, false
		}
	}
	return out, nil, true
}

// Equal compares byte slices without branching per byte.
func Equal(a, b []byte) bool {
	if len(a) != len(b) {
		return false
	}
	same := true
	for i := range a {
		if a[i] != b[i] {
			same = false
		}
	}
	return same
}
