//go:build verif

package runlength

import (
	"io"

	"seehuhn.de/go/pdf/internal/verifrt"
)

func verifBound() int {
	if verifrt.Tier() > 0 {
		return 9
	}
	return 6
}

func verifEncode(data []byte, split int) []byte {
	sink := &verifrt.Sink{}
	w := Encode(sink)
	n1, err1 := w.Write(data[:split])
	n2, err2 := w.Write(data[split:])
	err3 := w.Close()
	verifrt.Assert(err1 == nil && err2 == nil && err3 == nil, "encoder reports no error")
	verifrt.Assert(n1 == split && n2 == len(data)-split, "encoder consumes everything")
	verifrt.Assert(sink.Closed, "encoder closes its sink")
	return sink.B
}

func Verif_C06_runlength_roundtrip() {
	n := verifrt.Len("n", 0, verifBound())
	data := verifrt.Bytes("data", n)
	split := verifrt.Len("split", 0, n)
	enc := verifEncode(data, split)
	bufsz := verifrt.Len("bufsz", 1, 4)
	chunk := verifrt.Len("chunk", 0, 2)
	r := Decode(&verifrt.ChunkReader{Data: enc, Chunk: chunk, EOF: io.EOF})
	out, err, exhausted := verifrt.ReadAll(r, bufsz, 4*n+16)
	verifrt.Cover("decoded")
	verifrt.Assert(!exhausted, "decoder terminates")
	verifrt.Assert(err == io.EOF, "decoder ends with io.EOF")
	verifrt.Assert(verifrt.Equal(out, data), "decode(encode(x)) == x")
}

// Verif_C06_runlength_long_runs: concrete lengths around the 128-byte run and
// literal limits, symbolic content (two symbolic byte values).
func Verif_C06_runlength_long_runs() {
	verifrt.Unwind(2000)
	lens := []int{127, 128, 129, 130, 256, 257}
	n := lens[verifrt.Choice("len", len(lens))]
	a, b := verifrt.Byte("a"), verifrt.Byte("b")
	shape := verifrt.Choice("shape", 3)
	data := make([]byte, n)
	for i := range data {
		switch shape {
		case 0: // one long run
			data[i] = a
		case 1: // alternating literal
			if i%2 == 0 {
				data[i] = a
			} else {
				data[i] = b
			}
		case 2: // run then different tail
			if i < n-2 {
				data[i] = a
			} else {
				data[i] = b
			}
		}
	}
	if shape == 1 {
		verifrt.Assume(a != b)
	}
	enc := verifEncode(data, n/2)
	r := Decode(&verifrt.ChunkReader{Data: enc, EOF: io.EOF})
	out, err, exhausted := verifrt.ReadAll(r, 100, 16)
	verifrt.Assert(!exhausted && err == io.EOF, "decoder ends with io.EOF")
	verifrt.Assert(verifrt.Equal(out, data), "decode(encode(x)) == x")
}

// refRLDecode: ISO 32000 7.4.5.
func refRLDecode(src []byte) (out []byte, ok bool) {
	i := 0
	for i < len(src) {
		l := int(src[i])
		i++
		switch {
		case l == 128:
			return out, true
		case l < 128:
			if i+l+1 > len(src) {
				return out, false
			}
			out = append(out, src[i:i+l+1]...)
			i += l + 1
		default:
			if i >= len(src) {
				return out, false
			}
			for k := 0; k < 257-l; k++ {
				out = append(out, src[i])
			}
			i++
		}
	}
	return out, false
}

// refRLEncode: a deliberately different encoder (literals only, one byte
// each, or 2-byte runs chosen by the solver).
func refRLEncode(data []byte) []byte {
	var out []byte
	i := 0
	for i < len(data) {
		if i+1 < len(data) && data[i] == data[i+1] && verifrt.Bool("userun") {
			out = append(out, 255, data[i]) // 257-255 = 2 copies
			i += 2
			continue
		}
		out = append(out, 0, data[i])
		i++
	}
	return append(out, 128)
}

func Verif_C07_runlength_vs_reference() {
	n := verifrt.Len("n", 0, verifBound())
	data := verifrt.Bytes("data", n)
	enc := verifEncode(data, n)
	out, ok := refRLDecode(enc)
	verifrt.Assert(ok, "reference decoder finds EOD")
	verifrt.Assert(verifrt.Equal(out, data), "reference decodes library output to the input")

	src := refRLEncode(data)
	r := Decode(&verifrt.ChunkReader{Data: src, EOF: io.EOF})
	got, err, exhausted := verifrt.ReadAll(r, 3, 4*n+8)
	verifrt.Assert(!exhausted && err == io.EOF, "library accepts the reference encoding")
	verifrt.Assert(verifrt.Equal(got, data), "library decodes the reference encoding to the input")
}

func Verif_C08_runlength_total() {
	max := 3
	if verifrt.Tier() > 0 {
		max = 5
	}
	n := verifrt.Len("n", 0, max)
	body := verifrt.Bytes("body", n)
	r := Decode(&verifrt.ChunkReader{Data: body, EOF: io.EOF})
	verifrt.Unwind(1200)
	out, err, exhausted := verifrt.ReadAll(r, 64, 2*128*n+8)
	verifrt.Cover("drained")
	verifrt.Assert(!exhausted, "decoder terminates with an error or EOF")
	verifrt.Assert(err != nil, "an end is reported")
	verifrt.Assert(len(out) <= 128*n, "output bounded by 128 bytes per input byte")
	want, ok := refRLDecode(body)
	if ok {
		verifrt.Assert(err == io.EOF, "well-formed body ends with io.EOF")
		verifrt.Assert(verifrt.Equal(out, want), "decoded data equals the reference")
	}
}

// verifBlocks builds a literal stretch of l bytes without three equal
// neighbours (concrete), a run of r copies of a symbolic byte and a short
// symbolic tail: every position of a run relative to the 128-byte literal
// block and run limits.
func verifBlocks() []byte {
	maxL := 140
	if verifrt.Tier() > 0 {
		maxL = 300
	}
	l := verifrt.Len("stretch", 0, maxL)
	runs := []int{1, 2, 3, 4, 127, 128, 129, 130}
	r := runs[verifrt.Choice("run", len(runs))]
	t := verifrt.Len("tail", 0, 1)
	c := verifrt.Byte("c")
	data := make([]byte, 0, l+r+t)
	for i := 0; i < l; i++ {
		data = append(data, "ABBCAC"[i%6])
	}
	for i := 0; i < r; i++ {
		data = append(data, c)
	}
	if t > 0 {
		data = append(data, verifrt.Byte("d"))
	}
	return data
}

func Verif_C06_runlength_block_boundaries() {
	verifrt.Unwind(4000)
	data := verifBlocks()
	split := len(data)
	if verifrt.Choice("split", 2) == 1 {
		split = len(data) / 2
	}
	enc := verifEncode(data, split)
	r := Decode(&verifrt.ChunkReader{Data: enc, EOF: io.EOF})
	out, err, exhausted := verifrt.ReadAll(r, 100, len(data)/50+16)
	verifrt.Assert(!exhausted && err == io.EOF, "decoder ends with io.EOF")
	verifrt.Assert(verifrt.Equal(out, data), "decode(encode(x)) == x")
}

func Verif_C07_runlength_block_boundaries_vs_reference() {
	verifrt.Unwind(4000)
	data := verifBlocks()
	enc := verifEncode(data, len(data))
	out, ok := refRLDecode(enc)
	verifrt.Assert(ok, "reference decoder accepts library output")
	verifrt.Assert(verifrt.Equal(out, data), "reference decoder reproduces the input")
}
