//go:build verif

package ccittfax

import (
	"io"

	xccitt "golang.org/x/image/ccitt"

	"seehuhn.de/go/pdf/internal/verifrt"
)

// verifRow builds one scan line of cols pixels: from a pattern list, or (for
// narrow images) from symbolic bytes, so that every run structure of an
// 8- or 9-pixel row is covered.
func verifRow(cols int, symbolic bool) []byte {
	n := (cols + 7) / 8
	row := make([]byte, n)
	if symbolic {
		copy(row, verifrt.Bytes("row", n))
	} else {
		pat := []byte{0x00, 0xff, 0xf0, 0x0f, 0xaa, 0x80, 0x01}[verifrt.Choice("pattern", 7)]
		for i := range row {
			row[i] = pat
		}
	}
	// bits beyond the last column are padding: keep them zero
	if r := cols % 8; r != 0 {
		row[n-1] &= 0xff << (8 - r)
	}
	return row
}

// Verif_C06_ccitt_roundtrip: CCITTFax (Group 4, Group 3 1-D, Group 3 2-D)
// round trips for one or two (thorough: three) rows, plain, with end-of-line
// codes and with byte-aligned rows; widths around the byte and make-up code
// boundaries; the first row of 8-pixel images is symbolic.
func Verif_C06_ccitt_roundtrip() {
	verifrt.Unwind(40000)
	cols := []int{1, 8, 9, 63, 64, 65, 128, 1728}[verifrt.Choice("columns", 6+2*verifrt.Tier())]
	p := &Params{Columns: cols, K: []int{-1, 0, 2}[verifrt.Choice("k", 3)], BlackIs1: verifrt.Choice("blackis1", 2) == 1}
	// the options that change the layout of the encoded data: end-of-line
	// codes and rows padded to byte boundaries
	switch verifrt.Choice("layout", 3) {
	case 1:
		p.EndOfLine = true
	case 2:
		p.EncodedByteAlign = true
	}
	rows := 1 + verifrt.Choice("rows", 2+verifrt.Tier())
	var data []byte
	for i := 0; i < rows; i++ {
		data = append(data, verifRow(cols, i == 0 && cols == 8)...)
	}
	sink := &verifrt.Sink{}
	w, err := NewWriter(sink, p)
	verifrt.Assert(err == nil, "NewWriter succeeds")
	if err != nil {
		return
	}
	n, err1 := w.Write(data)
	err2 := w.Close()
	verifrt.Assert(err1 == nil && err2 == nil && n == len(data), "encoder accepts whole rows")
	r, err := NewReader(&verifrt.ChunkReader{Data: sink.B, EOF: io.EOF}, p)
	verifrt.Assert(err == nil, "NewReader succeeds")
	if err != nil {
		return
	}
	out, rerr, exhausted := verifrt.ReadAll(r, 512, len(data)/64+8)
	verifrt.Cover("decoded")
	verifrt.Assert(!exhausted && rerr == io.EOF, "decoder ends with io.EOF")
	verifrt.Assert(verifrt.Equal(out, data), "decode(encode(x)) == x")
}

// Verif_C07_ccitt_vs_independent: what the library's encoder writes for
// Group 4 and Group 3 1-D is read by golang.org/x/image/ccitt (an
// independent decoder) and must give the rows that were written.
func Verif_C07_ccitt_vs_independent() {
	verifrt.Unwind(40000)
	cols := []int{1, 8, 9, 63, 64, 65, 128, 1728}[verifrt.Choice("columns", 6+2*verifrt.Tier())]
	k := []int{-1, 0}[verifrt.Choice("k", 2)]
	p := &Params{Columns: cols, K: k, BlackIs1: verifrt.Choice("blackis1", 2) == 1, EndOfLine: k == 0}
	rows := 1 + verifrt.Choice("rows", 2)
	var data []byte
	for i := 0; i < rows; i++ {
		data = append(data, verifRow(cols, i == 0 && cols == 8)...)
	}
	sink := &verifrt.Sink{}
	w, err := NewWriter(sink, p)
	verifrt.Assert(err == nil, "NewWriter succeeds")
	if err != nil {
		return
	}
	w.Write(data)
	verifrt.Assert(w.Close() == nil, "encoder closes")
	sf := xccitt.Group4
	if k == 0 {
		sf = xccitt.Group3
	}
	// (orientation of the bits and the need for EOL codes in Group 3 were
	// calibrated on the unchanged library)
	r := xccitt.NewReader(&verifrt.ChunkReader{Data: sink.B, EOF: io.EOF}, xccitt.MSB, sf, cols, rows, &xccitt.Options{Invert: p.BlackIs1})
	out, rerr, exhausted := verifrt.ReadAll(r, 512, len(data)/64+8)
	verifrt.Cover("decoded")
	verifrt.Assert(!exhausted && (rerr == io.EOF || rerr == nil), "independent decoder accepts library output")
	verifrt.Assert(verifrt.Equal(out, data), "independent decoder reproduces the rows")
}

// Verif_C08_ccitt_total: the CCITTFax decoder on one arbitrary byte (nearly
// every bit is a branch; two bytes do not finish within the budgets): it returns, does not panic,
// and the rows it produces stay within MaxRows.
func Verif_C08_ccitt_total() {
	verifrt.TerminationBound(200000)
	n := verifrt.Len("n", 0, 1)
	body := verifrt.Bytes("body", n)
	p := &Params{Columns: []int{8, 64}[verifrt.Choice("columns", 1+verifrt.Tier())], K: []int{-1, 0, 2}[verifrt.Choice("k", 3)], MaxRows: 4}
	if verifrt.Tier() > 0 && verifrt.Choice("align", 2) == 1 {
		p.EncodedByteAlign = true
	}
	r, err := NewReader(&verifrt.ChunkReader{Data: body, EOF: io.EOF}, p)
	verifrt.Assert(err == nil, "NewReader succeeds")
	if err != nil {
		return
	}
	out, rerr, exhausted := verifrt.ReadAll(r, 64, 64)
	verifrt.Cover("drained")
	verifrt.Assert(!exhausted, "decoder terminates with an error or EOF")
	verifrt.Assert(rerr != nil, "an end is reported")
	verifrt.Assert(len(out) <= 4*((p.Columns+7)/8), "output bounded by MaxRows rows")
}
