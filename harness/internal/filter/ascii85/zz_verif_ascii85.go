//go:build verif

package ascii85

import (
	stda85 "encoding/ascii85"
	"io"

	"seehuhn.de/go/pdf/internal/verifrt"
)

func verifBound() int {
	if verifrt.Tier() > 0 {
		return 9
	}
	return 5
}

func verifEncode(data []byte, split, width int) []byte {
	sink := &verifrt.Sink{}
	w := Encode(sink, width)
	n1, err1 := w.Write(data[:split])
	n2, err2 := w.Write(data[split:])
	err3 := w.Close()
	verifrt.Assert(err1 == nil && err2 == nil && err3 == nil, "encoder reports no error")
	verifrt.Assert(n1 == split && n2 == len(data)-split, "encoder consumes everything")
	verifrt.Assert(sink.Closed, "encoder closes its sink")
	return sink.B
}

// Verif_C06_ascii85_roundtrip: decode(encode(x)) == x for every x, write
// split, line width and read buffer size.
func Verif_C06_ascii85_roundtrip() {
	n := verifrt.Len("n", 0, verifBound())
	data := verifrt.Bytes("data", n)
	split := verifrt.Len("split", 0, n)
	width := []int{1, 8, 79}[verifrt.Choice("width", 3)]
	enc := verifEncode(data, split, width)
	bufsz := verifrt.Len("bufsz", 1, 3+2*verifrt.Tier())
	chunk := verifrt.Len("chunk", 0, 1+2*verifrt.Tier())
	r := Decode(&verifrt.ChunkReader{Data: enc, Chunk: chunk, EOF: io.EOF})
	out, err, exhausted := verifrt.ReadAll(r, bufsz, 4*n+16)
	verifrt.Cover("decoded")
	verifrt.Assert(!exhausted, "decoder terminates")
	verifrt.Assert(err == io.EOF, "decoder ends with io.EOF")
	verifrt.Assert(verifrt.Equal(out, data), "decode(encode(x)) == x")
}

// Verif_C07_ascii85_vs_stdlib: the library's output is decoded by
// encoding/ascii85, and encoding/ascii85's output by the library.
func Verif_C07_ascii85_vs_stdlib() {
	n := verifrt.Len("n", 0, verifBound())
	data := verifrt.Bytes("data", n)
	enc := verifEncode(data, n, 79)
	// strip the "~>" end marker for the stdlib decoder
	verifrt.Assert(len(enc) >= 2 && enc[len(enc)-2] == '~' && enc[len(enc)-1] == '>', "end marker written")
	body := enc[:len(enc)-2]
	dst := make([]byte, 4*len(body)+4)
	nd, _, err := stda85.Decode(dst, body, true)
	verifrt.Assert(err == nil, "stdlib accepts library output")
	verifrt.Assert(verifrt.Equal(dst[:nd], data), "stdlib decodes library output to the input")

	// other direction
	buf := make([]byte, stda85.MaxEncodedLen(n))
	ne := stda85.Encode(buf, data)
	src := append(append([]byte{}, buf[:ne]...), '~', '>')
	r := Decode(&verifrt.ChunkReader{Data: src, EOF: io.EOF})
	out, err2, exhausted := verifrt.ReadAll(r, 64, 8)
	verifrt.Assert(!exhausted && err2 == io.EOF, "library accepts stdlib output")
	verifrt.Assert(verifrt.Equal(out, data), "library decodes stdlib output to the input")
}

// Verif_C08_ascii85_total: the decoder is total on arbitrary bytes.
func Verif_C08_ascii85_total() {
	max := 5
	if verifrt.Tier() > 0 {
		max = 7
	}
	n := verifrt.Len("n", 0, max)
	body := verifrt.Bytes("body", n)
	bufsz := verifrt.Len("bufsz", 1, 4)
	r := Decode(&verifrt.ChunkReader{Data: body, EOF: io.EOF})
	out, err, exhausted := verifrt.ReadAll(r, bufsz, 4*n+16)
	verifrt.Cover("drained")
	verifrt.Assert(!exhausted, "decoder terminates with an error or EOF")
	verifrt.Assert(err != nil, "an end is reported")
	verifrt.Assert(len(out) <= 4*n, "output bounded by 4 bytes per input byte")
}
