//go:build verif

package asciihex

import (
	"io"

	"seehuhn.de/go/pdf/internal/verifrt"
)

func verifBound() int {
	if verifrt.Tier() > 0 {
		return 5
	}
	return 3
}

func verifEncode(data []byte, split, width int) []byte {
	sink := &verifrt.Sink{}
	w := Encode(sink, width)
	n1, err1 := w.Write(data[:split])
	n2, err2 := w.Write(data[split:])
	err3 := w.Close()
	verifrt.Assert(err1 == nil && err2 == nil && err3 == nil, "encoder reports no error")
	verifrt.Assert(n1 == split && n2 == len(data)-split, "encoder consumes everything")
	verifrt.Assert(sink.Closed, "encoder closes its sink")
	return sink.B
}

func Verif_C06_asciihex_roundtrip() {
	n := verifrt.Len("n", 0, verifBound())
	data := verifrt.Bytes("data", n)
	split := verifrt.Len("split", 0, n)
	width := []int{2, 7, 79}[verifrt.Choice("width", 2+verifrt.Tier())]
	enc := verifEncode(data, split, width)
	bufsz := verifrt.Len("bufsz", 1, 2+2*verifrt.Tier())
	chunk := verifrt.Len("chunk", 0, 1+2*verifrt.Tier())
	r := Decode(&verifrt.ChunkReader{Data: enc, Chunk: chunk, EOF: io.EOF})
	out, err, exhausted := verifrt.ReadAll(r, bufsz, 4*n+16)
	verifrt.Cover("decoded")
	verifrt.Assert(!exhausted, "decoder terminates")
	verifrt.Assert(err == io.EOF, "decoder ends with io.EOF")
	verifrt.Assert(verifrt.Equal(out, data), "decode(encode(x)) == x")
}

func refHexVal(c byte) (byte, bool) {
	switch {
	case c >= '0' && c <= '9':
		return c - '0', true
	case c >= 'a' && c <= 'f':
		return c - 'a' + 10, true
	case c >= 'A' && c <= 'F':
		return c - 'A' + 10, true
	}
	return 0, false
}

// refHexDecode: ISO 32000 7.4.2 — pairs of hex digits, white space ignored,
// '>' ends the data, an odd final digit is followed by an implicit 0.
func refHexDecode(src []byte) (out []byte, ok bool) {
	have := false
	var hi byte
	for _, c := range src {
		if c == '>' {
			if have {
				out = append(out, hi<<4)
			}
			return out, true
		}
		if c == 0 || c == 9 || c == 10 || c == 12 || c == 13 || c == 32 {
			continue
		}
		v, isHex := refHexVal(c)
		if !isHex {
			return out, false
		}
		if have {
			out = append(out, hi<<4|v)
			have = false
		} else {
			hi, have = v, true
		}
	}
	return out, false
}

// Verif_C07_asciihex_vs_reference: library encoder vs reference decoder,
// reference-style encodings (upper case, white space, odd digit) vs library
// decoder.
func Verif_C07_asciihex_vs_reference() {
	n := verifrt.Len("n", 0, verifBound()-1)
	data := verifrt.Bytes("data", n)
	enc := verifEncode(data, n, 79)
	out, ok := refHexDecode(enc)
	verifrt.Assert(ok, "reference decoder finds the end marker")
	verifrt.Assert(verifrt.Equal(out, data), "reference decodes library output to the input")

	// independent encoding with symbolic case and interleaved white space
	const up = "0123456789ABCDEF"
	const lo = "0123456789abcdef"
	var src []byte
	for _, b := range data {
		if verifrt.Bool("upper") {
			src = append(src, up[b>>4], up[b&15])
		} else {
			src = append(src, lo[b>>4], up[b&15])
		}
		if verifrt.Bool("space") {
			src = append(src, ' ')
		}
	}
	src = append(src, '>')
	r := Decode(&verifrt.ChunkReader{Data: src, EOF: io.EOF})
	got, err, exhausted := verifrt.ReadAll(r, 3, 4*n+8)
	verifrt.Assert(!exhausted && err == io.EOF, "library accepts the independent encoding")
	verifrt.Assert(verifrt.Equal(got, data), "library decodes the independent encoding to the input")
}

// Verif_C08_asciihex_total: arbitrary body; result agrees with the reference
// on where the data ends.
func Verif_C08_asciihex_total() {
	max := 3
	if verifrt.Tier() > 0 {
		max = 5
	}
	n := verifrt.Len("n", 0, max)
	body := verifrt.Bytes("body", n)
	bufsz := verifrt.Len("bufsz", 1, 2)
	r := Decode(&verifrt.ChunkReader{Data: body, EOF: io.EOF})
	out, err, exhausted := verifrt.ReadAll(r, bufsz, 2*n+8)
	verifrt.Cover("drained")
	verifrt.Assert(!exhausted, "decoder terminates with an error or EOF")
	verifrt.Assert(err != nil, "an end is reported")
	verifrt.Assert(len(out) <= n/2+1, "output bounded by half the input")
	want, ok := refHexDecode(body)
	if ok {
		verifrt.Assert(err == io.EOF, "well-formed body ends with io.EOF")
		verifrt.Assert(verifrt.Equal(out, want), "decoded data equals the reference")
	} else {
		verifrt.Assert(err != io.EOF, "body without end marker or with junk is not a clean EOF")
	}
}
