//go:build verif

package predict

import (
	"io"

	"seehuhn.de/go/membudget"
	"seehuhn.de/go/pdf/internal/verifrt"
)

type verifRC struct {
	verifrt.ChunkReader
	closed bool
}

func (r *verifRC) Close() error { r.closed = true; return nil }

var verifPredictors = []int{2, 10, 11, 12, 13, 14}
var verifBPC = []int{1, 2, 4, 8, 16}

// verifParams draws a small valid parameter set.
func verifParams(maxCols int) *Params {
	p := &Params{
		Predictor:        verifPredictors[verifrt.Choice("predictor", len(verifPredictors))],
		BitsPerComponent: verifBPC[verifrt.Choice("bpc", len(verifBPC))],
		Colors:           1 + verifrt.Choice("colors", 3),
		Columns:          1 + verifrt.Choice("columns", maxCols),
	}
	return p
}

func verifEncode(p *Params, data []byte, split int) []byte {
	sink := &verifrt.Sink{}
	w, err := NewWriter(sink, p)
	verifrt.Assert(err == nil, "NewWriter accepts validated parameters")
	n1, err1 := w.Write(data[:split])
	n2, err2 := w.Write(data[split:])
	err3 := w.Close()
	verifrt.Assert(err1 == nil && err2 == nil && err3 == nil, "encoder reports no error")
	verifrt.Assert(n1 == split && n2 == len(data)-split, "encoder consumes everything")
	verifrt.Assert(sink.Closed, "encoder closes its sink")
	return sink.B
}

func verifDecode(p *Params, enc []byte, bufsz, chunk, maxReads int) ([]byte, error, bool) {
	src := &verifRC{ChunkReader: verifrt.ChunkReader{Data: enc, Chunk: chunk, EOF: io.EOF}}
	r, err := NewReader(src, p, membudget.New(1<<20))
	verifrt.Assert(err == nil, "NewReader accepts validated parameters")
	return verifrt.ReadAll(r, bufsz, maxReads)
}

// Verif_C06_predict_roundtrip: whole rows of symbolic bytes through every
// predictor, bit depth and colour count; write split and read buffer size
// symbolic.
func Verif_C06_predict_roundtrip() {
	p := verifParams(2 + verifrt.Tier())
	if p.Predictor == 14 {
		// Paeth branches three ways per byte: keep rows short
		verifrt.Assume(p.bytesPerRow() <= 3+2*verifrt.Tier())
	}
	rows := 2
	n := rows * p.bytesPerRow()
	data := verifrt.Bytes("data", n)
	var split int
	if verifrt.Tier() > 0 {
		split = verifrt.Len("split", 0, n)
	} else {
		split = []int{0, p.bytesPerRow() - 1, n}[verifrt.Choice("split", 3)]
	}
	enc := verifEncode(p, data, split)
	bufsz := []int{1, 64, 3}[verifrt.Choice("bufsz", 2+verifrt.Tier())]
	out, err, exhausted := verifDecode(p, enc, bufsz, verifrt.Len("chunk", 0, verifrt.Tier()), 2*n+8)
	verifrt.Cover("decoded")
	verifrt.Assert(!exhausted, "decoder terminates")
	verifrt.Assert(err == io.EOF, "decoder ends with io.EOF")
	verifrt.Assert(verifrt.Equal(out, data), "decode(encode(x)) == x")
}

// Verif_C06_predict_optimum: predictor 15 selects a filter per row with a
// floating point heuristic over a byte histogram; data bytes are drawn from a
// three-value alphabet by case split (concrete), all sequences of the bound.
func Verif_C06_predict_optimum() {
	p := &Params{Predictor: 15, BitsPerComponent: 8, Colors: 1 + verifrt.Choice("colors", 2), Columns: 2}
	n := 2 * p.bytesPerRow()
	alphabet := []byte{0, 1, 0xff}
	data := make([]byte, n)
	for i := range data {
		data[i] = alphabet[verifrt.Choice("sym", 3)]
	}
	enc := verifEncode(p, data, n/2)
	out, err, exhausted := verifDecode(p, enc, 64, 0, 8)
	verifrt.Assert(!exhausted && err == io.EOF, "decoder ends with io.EOF")
	verifrt.Assert(verifrt.Equal(out, data), "decode(encode(x)) == x")
}

// ---- reference codecs written from the PNG specification (section 9) and
// TIFF 6.0 (section 14), sharing no code with the package under test.

func refPaeth(a, b, c int) int {
	p := a + b - c
	pa, pb, pc := p-a, p-b, p-c
	if pa < 0 {
		pa = -pa
	}
	if pb < 0 {
		pb = -pb
	}
	if pc < 0 {
		pc = -pc
	}
	if pa <= pb && pa <= pc {
		return a
	}
	if pb <= pc {
		return b
	}
	return c
}

// refPNGDecode reverses PNG filtering; enc holds rows of 1+rowBytes bytes.
func refPNGDecode(enc []byte, rowBytes, bpp int) ([]byte, bool) {
	if len(enc)%(rowBytes+1) != 0 {
		return nil, false
	}
	var out []byte
	prior := make([]byte, rowBytes)
	for off := 0; off < len(enc); off += rowBytes + 1 {
		ft := enc[off]
		cur := make([]byte, rowBytes)
		for x := 0; x < rowBytes; x++ {
			var a, b, c int
			if x >= bpp {
				a = int(cur[x-bpp])
				c = int(prior[x-bpp])
			}
			b = int(prior[x])
			var pr int
			switch ft {
			case 0:
				pr = 0
			case 1:
				pr = a
			case 2:
				pr = b
			case 3:
				pr = (a + b) / 2
			case 4:
				pr = refPaeth(a, b, c)
			default:
				return nil, false
			}
			cur[x] = byte(int(enc[off+1+x]) + pr)
		}
		out = append(out, cur...)
		prior = cur
	}
	return out, true
}

// refPNGEncode filters every row with the filter type chosen by the solver.
func refPNGEncode(data []byte, rowBytes, bpp int) []byte {
	var out []byte
	prior := make([]byte, rowBytes)
	for off := 0; off < len(data); off += rowBytes {
		cur := data[off : off+rowBytes]
		ft := verifrt.Choice("filtertype", 5)
		out = append(out, byte(ft))
		for x := 0; x < rowBytes; x++ {
			var a, b, c int
			if x >= bpp {
				a = int(cur[x-bpp])
				c = int(prior[x-bpp])
			}
			b = int(prior[x])
			var pr int
			switch ft {
			case 1:
				pr = a
			case 2:
				pr = b
			case 3:
				pr = (a + b) / 2
			case 4:
				pr = refPaeth(a, b, c)
			}
			out = append(out, byte(int(cur[x])-pr))
		}
		prior = cur
	}
	return out
}

// refTIFF applies (dir=+1) or reverses (dir=-1) horizontal differencing on
// components of bpc bits packed MSB first.
func refTIFF(data []byte, rowBytes, colors, bpc, columns int, decode bool) []byte {
	out := make([]byte, len(data))
	copy(out, data)
	mask := (1 << bpc) - 1
	get := func(row []byte, k int) int {
		bit := k * bpc
		v := 0
		for i := 0; i < bpc; i++ {
			b := bit + i
			v = v<<1 | int(row[b/8]>>(7-b%8))&1
		}
		return v
	}
	put := func(row []byte, k, v int) {
		bit := k * bpc
		for i := 0; i < bpc; i++ {
			b := bit + i
			sh := uint(7 - b%8)
			bitv := byte(v>>(bpc-1-i)) & 1
			row[b/8] = row[b/8]&^(1<<sh) | bitv<<sh
		}
	}
	for off := 0; off+rowBytes <= len(data); off += rowBytes {
		src := data[off : off+rowBytes]
		dst := out[off : off+rowBytes]
		for k := colors; k < colors*columns; k++ {
			if decode {
				put(dst, k, (get(src, k)+get(dst, k-colors))&mask)
			} else {
				put(dst, k, (get(src, k)-get(src, k-colors))&mask)
			}
		}
	}
	return out
}

// Verif_C07_predict_vs_reference: library encoder vs reference decoder and
// reference encoder vs library decoder.
func Verif_C07_predict_vs_reference() {
	p := verifParams(2)
	rb := p.bytesPerRow()
	if p.Predictor == 14 {
		verifrt.Assume(rb <= 2+verifrt.Tier())
	}
	if p.Predictor == 2 && p.BitsPerComponent < 8 {
		// bit-level reference: keep the component count small
		verifrt.Assume(p.Colors*p.Columns <= 4)
	}
	n := 2 * rb
	data := verifrt.Bytes("data", n)
	enc := verifEncode(p, data, n)
	// PNG: the filter distance is the pixel size in bytes, rounded up (the
	// reference computes it itself)
	bpp := (p.Colors*p.BitsPerComponent + 7) / 8
	if bpp < 1 {
		bpp = 1
	}
	if p.Predictor >= 10 {
		got, ok := refPNGDecode(enc, rb, bpp)
		verifrt.Assert(ok, "reference PNG decoder accepts library output")
		verifrt.Assert(verifrt.Equal(got, data), "reference PNG decoder reproduces the input")
		if p.Predictor == 10 {
			src := refPNGEncode(data, rb, bpp)
			out, err, exhausted := verifDecode(p, src, 64, 0, 8)
			verifrt.Assert(!exhausted && err == io.EOF, "library accepts reference PNG rows")
			verifrt.Assert(verifrt.Equal(out, data), "library decodes reference PNG rows to the input")
		}
	} else {
		got := refTIFF(enc, rb, p.Colors, p.BitsPerComponent, p.Columns, true)
		verifrt.Assert(verifrt.Equal(got, data), "reference TIFF decoder reproduces the input")
		src := refTIFF(data, rb, p.Colors, p.BitsPerComponent, p.Columns, false)
		out, err, exhausted := verifDecode(p, src, 64, 0, 8)
		verifrt.Assert(!exhausted && err == io.EOF, "library accepts reference TIFF rows")
		verifrt.Assert(verifrt.Equal(out, data), "library decodes reference TIFF rows to the input")
	}
}

// Verif_C08_predict_params: for every parameter set of any magnitude that
// Validate accepts, the derived row sizes are positive, computed without
// wrap-around and within the documented cap.
func Verif_C08_predict_params() {
	p := &Params{
		Predictor:        verifrt.Int("predictor"),
		Colors:           verifrt.Int("colors"),
		BitsPerComponent: verifrt.Int("bpc"),
		Columns:          verifrt.Int("columns"),
	}
	err := p.Validate()
	if err != nil {
		verifrt.Cover("rejected")
		return
	}
	verifrt.Cover("accepted")
	if p.Predictor == 1 {
		return
	}
	rb := p.bytesPerRow()
	verifrt.Assert(rb >= 1 && rb <= maxBytesPerRow, "bytesPerRow within the cap")
	bpp := p.bytesPerPixel()
	verifrt.Assert(bpp >= 1 && bpp <= 512, "bytesPerPixel within range")
	verifrt.Assert(p.Colors >= 1 && p.Colors <= 256, "colors within range")
}

// Verif_C08_predict_total: the decoder on arbitrary bodies with small valid
// parameters: no panic, terminates, output never longer than the input.
func Verif_C08_predict_total() {
	p := verifParams(2)
	verifrt.Assume(p.bytesPerRow() <= 3)
	n := verifrt.Len("n", 0, 5+2*verifrt.Tier())
	body := verifrt.Bytes("body", n)
	out, err, exhausted := verifDecode(p, body, 2, 0, 2*n+8)
	verifrt.Cover("drained")
	verifrt.Assert(!exhausted, "decoder terminates")
	verifrt.Assert(err != nil, "an end is reported")
	verifrt.Assert(len(out) <= n, "output never longer than input")
}
