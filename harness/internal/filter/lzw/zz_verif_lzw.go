//go:build verif

package lzw

import (
	stdlzw "compress/lzw"
	"io"

	tifflzw "golang.org/x/image/tiff/lzw"

	"seehuhn.de/go/pdf/internal/verifrt"
)

// The LZW encoder indexes a 16384-entry hash table with a hash of the input
// bytes.  Inputs for the encoder are therefore drawn from a three-letter
// alphabet by solver case split (concrete bytes, every sequence up to the
// bound); the decoder is run on fully symbolic bytes (Verif_C08_lzw_total).
var verifAlphabet = []byte{0x00, 0x41, 0xff}

func verifData(max int) []byte {
	n := verifrt.Len("n", 0, max)
	data := make([]byte, n)
	for i := range data {
		data[i] = verifAlphabet[verifrt.Choice("sym", len(verifAlphabet))]
	}
	return data
}

func verifBound() int {
	if verifrt.Tier() > 0 {
		return 7
	}
	return 5
}

func verifEncode(data []byte, split int, early bool) []byte {
	sink := &verifrt.Sink{}
	w, err := NewWriter(sink, early)
	verifrt.Assert(err == nil, "NewWriter succeeds")
	n1, err1 := w.Write(data[:split])
	n2, err2 := w.Write(data[split:])
	err3 := w.Close()
	verifrt.Assert(err1 == nil && err2 == nil && err3 == nil, "encoder reports no error")
	verifrt.Assert(n1 == split && n2 == len(data)-split, "encoder consumes everything")
	return sink.B
}

func Verif_C06_lzw_roundtrip() {
	data := verifData(verifBound())
	early := verifrt.Choice("early", 2) == 1
	split := verifrt.Len("split", 0, len(data))
	enc := verifEncode(data, split, early)
	bufsz := verifrt.Len("bufsz", 1, 3)
	r := NewReader(&verifrt.ChunkReader{Data: enc, Chunk: verifrt.Len("chunk", 0, 1), EOF: io.EOF}, early)
	out, err, exhausted := verifrt.ReadAll(r, bufsz, 4*len(data)+16)
	verifrt.Cover("decoded")
	verifrt.Assert(!exhausted, "decoder terminates")
	verifrt.Assert(err == io.EOF, "decoder ends with io.EOF")
	verifrt.Assert(verifrt.Equal(out, data), "decode(encode(x)) == x")
}

// verifLong builds concrete long inputs that make the code width change
// (at 511/512, 1023/1024, ...) and, in the thorough tier, exhaust the table.
func verifLong() []byte {
	n := []int{600, 1400}[verifrt.Choice("longlen", 2)]
	if verifrt.Tier() > 0 && verifrt.Choice("verylong", 2) == 1 {
		n = 9000
	}
	a := verifrt.Choice("stride", 3) + 1
	data := make([]byte, n)
	x := 0
	for i := range data {
		// a sequence without long repeats: new dictionary entry at almost
		// every second byte
		x = (x*5 + a + i/251) & 0xff
		data[i] = byte(x)
	}
	return data
}

func Verif_C06_lzw_width_changes() {
	verifrt.Unwind(40000)
	data := verifLong()
	early := verifrt.Choice("early", 2) == 1
	enc := verifEncode(data, len(data)/3, early)
	r := NewReader(&verifrt.ChunkReader{Data: enc, EOF: io.EOF}, early)
	out, err, exhausted := verifrt.ReadAll(r, 512, len(data))
	verifrt.Assert(!exhausted && err == io.EOF, "decoder ends with io.EOF")
	verifrt.Assert(verifrt.Equal(out, data), "decode(encode(x)) == x")
}

// Verif_C07_lzw_vs_independent: EarlyChange=1 output is read by
// x/image/tiff/lzw, EarlyChange=0 output by compress/lzw, and their
// encoders' output (compress/lzw only writes EarlyChange=0) by the library.
func Verif_C07_lzw_vs_independent() {
	data := verifData(verifBound())
	early := verifrt.Choice("early", 2) == 1
	enc := verifEncode(data, len(data), early)
	var ref io.Reader
	if early {
		ref = tifflzw.NewReader(&verifrt.ChunkReader{Data: enc, EOF: io.EOF}, tifflzw.MSB, 8)
	} else {
		ref = stdlzw.NewReader(&verifrt.ChunkReader{Data: enc, EOF: io.EOF}, stdlzw.MSB, 8)
	}
	out, err, exhausted := verifrt.ReadAll(ref, 64, 16)
	verifrt.Assert(!exhausted && err == io.EOF, "independent decoder accepts library output")
	verifrt.Assert(verifrt.Equal(out, data), "independent decoder reproduces the input")

	sink := &verifrt.Sink{}
	sw := stdlzw.NewWriter(sink, stdlzw.MSB, 8)
	sw.Write(data)
	sw.Close()
	r := NewReader(&verifrt.ChunkReader{Data: sink.B, EOF: io.EOF}, false)
	got, err2, exhausted2 := verifrt.ReadAll(r, 64, 16)
	verifrt.Assert(!exhausted2 && err2 == io.EOF, "library accepts compress/lzw output")
	verifrt.Assert(verifrt.Equal(got, data), "library decodes compress/lzw output to the input")
}

func Verif_C07_lzw_width_changes_vs_independent() {
	verifrt.Unwind(40000)
	data := verifLong()
	early := verifrt.Choice("early", 2) == 1
	enc := verifEncode(data, len(data), early)
	var ref io.Reader
	if early {
		ref = tifflzw.NewReader(&verifrt.ChunkReader{Data: enc, EOF: io.EOF}, tifflzw.MSB, 8)
	} else {
		ref = stdlzw.NewReader(&verifrt.ChunkReader{Data: enc, EOF: io.EOF}, stdlzw.MSB, 8)
	}
	out, err, exhausted := verifrt.ReadAll(ref, 4096, len(data))
	verifrt.Assert(!exhausted && err == io.EOF, "independent decoder accepts library output")
	verifrt.Assert(verifrt.Equal(out, data), "independent decoder reproduces the input")
}

// Verif_C08_lzw_total: the decoder on arbitrary symbolic bytes.
func Verif_C08_lzw_total() {
	max := 6
	if verifrt.Tier() > 0 {
		max = 9
	}
	n := verifrt.Len("n", 0, max)
	body := verifrt.Bytes("body", n)
	early := verifrt.Choice("early", 2) == 1
	r := NewReader(&verifrt.ChunkReader{Data: body, EOF: io.EOF}, early)
	out, err, exhausted := verifrt.ReadAll(r, 16, 8*n+8)
	verifrt.Cover("drained")
	verifrt.Assert(!exhausted, "decoder terminates with an error or EOF")
	verifrt.Assert(err != nil, "an end is reported")
	// n bytes hold at most 8n/9 codes; the k-th code expands to at most k bytes
	verifrt.Assert(len(out) <= n*n+1, "output bounded")
}

// verifNoise is a fixed incompressible-looking buffer (LCG); its prefixes of
// every length end the encoder in every state of its code counter, so every
// prefix length is a separate solver-chosen case.
func verifNoise(n int) []byte {
	data := make([]byte, n)
	x := uint32(12345)
	for i := range data {
		x = x*1664525 + 1013904223
		data[i] = byte(x >> 24)
	}
	return data
}

func verifPrefixBound() int {
	if verifrt.Tier() > 0 {
		return 6000 // beyond table exhaustion (3838 codes) and the clear code
	}
	return 1100 // beyond the 9->10 and 10->11 bit boundaries
}

// Verif_C06_lzw_every_length: the encoder is closed after every possible
// number of codes (code width boundaries at Close, table exhaustion).
func Verif_C06_lzw_every_length() {
	verifrt.Unwind(40000)
	max := verifPrefixBound()
	n := verifrt.Len("n", 0, max)
	early := verifrt.Choice("early", 2) == 1
	data := verifNoise(max)[:n]
	enc := verifEncode(data, n, early)
	r := NewReader(&verifrt.ChunkReader{Data: enc, EOF: io.EOF}, early)
	out, err, exhausted := verifrt.ReadAll(r, 4096, n+8)
	verifrt.Assert(!exhausted && err == io.EOF, "decoder ends with io.EOF")
	verifrt.Assert(verifrt.Equal(out, data), "decode(encode(x)) == x")
}

func Verif_C07_lzw_every_length_vs_independent() {
	verifrt.Unwind(40000)
	max := verifPrefixBound()
	n := verifrt.Len("n", 0, max)
	early := verifrt.Choice("early", 2) == 1
	data := verifNoise(max)[:n]
	enc := verifEncode(data, n, early)
	var ref io.Reader
	if early {
		ref = tifflzw.NewReader(&verifrt.ChunkReader{Data: enc, EOF: io.EOF}, tifflzw.MSB, 8)
	} else {
		ref = stdlzw.NewReader(&verifrt.ChunkReader{Data: enc, EOF: io.EOF}, stdlzw.MSB, 8)
	}
	out, err, exhausted := verifrt.ReadAll(ref, 4096, n+8)
	verifrt.Assert(!exhausted && err == io.EOF, "independent decoder accepts library output")
	verifrt.Assert(verifrt.Equal(out, data), "independent decoder reproduces the input")
}

// verifPack packs codes MSB first with the code width schedule of the
// format: 9 bits after a clear code, one more bit as soon as the number of
// table entries (plus EarlyChange) reaches the current capacity, at most 12.
type verifPacker struct {
	out   []byte
	bits  uint32
	nBits uint
	width uint
	hi    int
	early int
}

func (p *verifPacker) code(c int) {
	p.bits |= uint32(c) << (32 - p.width - p.nBits)
	p.nBits += p.width
	for p.nBits >= 8 {
		p.out = append(p.out, byte(p.bits>>24))
		p.bits <<= 8
		p.nBits -= 8
	}
	if c == clear {
		p.width, p.hi = 9, eof
		return
	}
	p.hi++
	if p.hi+p.early >= 1<<p.width && p.width < 12 {
		p.width++
	}
}

// Verif_C08_lzw_total_deep_state: a hostile body whose first k codes (all
// the literal 'A', no clear code) drive the decoder to a code width boundary
// or to a full table, followed by arbitrary bytes.
func Verif_C08_lzw_total_deep_state() {
	verifrt.Unwind(40000)
	bases := []int{254, 766, 1790, 3838}
	if verifrt.Tier() == 0 {
		bases = []int{254, 3838}
	}
	k := bases[verifrt.Choice("base", len(bases))] + verifrt.Choice("delta", 6) - 3
	early := verifrt.Choice("early", 2)
	p := &verifPacker{width: 9, hi: eof, early: early}
	if verifrt.Choice("leadingclear", 2) == 1 {
		p.code(clear)
	}
	for i := 0; i < k; i++ {
		p.code('A')
	}
	// the unused low bits of the last prefix byte are arbitrary as well
	tail := verifrt.Bytes("tail", 4)
	body := p.out
	if p.nBits != 0 {
		mask := byte(0xff) >> p.nBits
		body = append(body, byte(p.bits>>24)|tail[0]&mask)
	}
	body = append(body, tail[1:]...)
	r := NewReader(&verifrt.ChunkReader{Data: body, EOF: io.EOF}, early == 1)
	out, err, exhausted := verifrt.ReadAll(r, 4096, 3*k+64)
	verifrt.Cover("drained")
	verifrt.Assert(!exhausted, "decoder terminates with an error or EOF")
	verifrt.Assert(err != nil, "an end is reported")
	verifrt.Assert(len(out) >= k-1, "the prefix is decoded")
}
