//go:build verif

package pdf

import (
	"seehuhn.de/go/pdf/internal/verifrt"
)

var verifVersions = []Version{V1_0, V1_1, V1_2, V1_3, V1_4, V1_5, V1_6, V1_7, V2_0}

func verifVersion() Version {
	return verifVersions[verifrt.Choice("version", len(verifVersions))]
}

// Verif_C06_flate_params_survive: for every FilterFlate that validation
// accepts, Info followed by MakeFilter reproduces the effective predictor
// parameters.
func Verif_C06_flate_params_survive() {
	f := FilterFlate{
		Predictor:        FlatePredictor(verifrt.Int("predictor")),
		Colors:           verifrt.Int("colors"),
		BitsPerComponent: verifrt.Int("bpc"),
		Columns:          verifrt.Int("columns"),
	}
	v := verifVersion()
	name, dict, err := f.Info(v)
	if err != nil {
		verifrt.Cover("rejected")
		return
	}
	verifrt.Cover("accepted")
	g, err := MakeFilter(name, dict)
	verifrt.Assert(err == nil, "MakeFilter accepts emitted parameters")
	f2, ok := g.(FilterFlate)
	verifrt.Assert(ok, "MakeFilter returns a FilterFlate")
	a := predictParams(f.Predictor, f.Colors, f.BitsPerComponent, f.Columns)
	b := predictParams(f2.Predictor, f2.Colors, f2.BitsPerComponent, f2.Columns)
	verifrt.Assert(a.Predictor == b.Predictor, "predictor survives")
	if a.Predictor != 1 {
		verifrt.Assert(a.Colors == b.Colors, "colors survive")
		verifrt.Assert(a.BitsPerComponent == b.BitsPerComponent, "bits per component survive")
		verifrt.Assert(a.Columns == b.Columns, "columns survive")
	}
	// the rebuilt filter is itself valid and emits the same dictionary
	_, dict2, err2 := f2.Info(v)
	verifrt.Assert(err2 == nil, "rebuilt filter validates")
	verifrt.Assert(verifEqual(dict, dict2), "read-write-read is stable")
}

// Verif_C06_lzw_params_survive: the same for FilterLZW including EarlyChange.
func Verif_C06_lzw_params_survive() {
	f := FilterLZW{
		Predictor:        FlatePredictor(verifrt.Int("predictor")),
		Colors:           verifrt.Int("colors"),
		BitsPerComponent: verifrt.Int("bpc"),
		Columns:          verifrt.Int("columns"),
		OffByOne:         verifrt.Bool("offbyone"),
	}
	v := verifVersion()
	name, dict, err := f.Info(v)
	if err != nil {
		verifrt.Cover("rejected")
		return
	}
	verifrt.Cover("accepted")
	g, err := MakeFilter(name, dict)
	verifrt.Assert(err == nil, "MakeFilter accepts emitted parameters")
	f2, ok := g.(FilterLZW)
	verifrt.Assert(ok, "MakeFilter returns a FilterLZW")
	verifrt.Assert(f2.OffByOne == f.OffByOne, "EarlyChange survives")
	a := predictParams(f.Predictor, f.Colors, f.BitsPerComponent, f.Columns)
	b := predictParams(f2.Predictor, f2.Colors, f2.BitsPerComponent, f2.Columns)
	verifrt.Assert(a.Predictor == b.Predictor, "predictor survives")
	if a.Predictor != 1 {
		verifrt.Assert(a.Colors == b.Colors && a.BitsPerComponent == b.BitsPerComponent && a.Columns == b.Columns, "predictor parameters survive")
	}
}

// Verif_C06_compress_selects: FilterCompress writes Flate from 1.2 on and
// LZW before, with the same predictor parameters.
func Verif_C06_compress_selects() {
	f := FilterCompress{
		Predictor:        FlatePredictor(verifrt.Int("predictor")),
		Colors:           verifrt.Int("colors"),
		BitsPerComponent: verifrt.Int("bpc"),
		Columns:          verifrt.Int("columns"),
	}
	v := verifVersion()
	name, dict, err := f.Info(v)
	if err != nil {
		verifrt.Cover("rejected")
		return
	}
	verifrt.Cover("accepted")
	if v >= V1_2 {
		verifrt.Assert(name == "FlateDecode", "Flate from PDF 1.2")
	} else {
		verifrt.Assert(name == "LZWDecode", "LZW before PDF 1.2")
	}
	g, err := MakeFilter(name, dict)
	verifrt.Assert(err == nil, "MakeFilter accepts emitted parameters")
	var b predictSummary
	switch f2 := g.(type) {
	case FilterFlate:
		b = verifSummary(f2.Predictor, f2.Colors, f2.BitsPerComponent, f2.Columns)
	case FilterLZW:
		b = verifSummary(f2.Predictor, f2.Colors, f2.BitsPerComponent, f2.Columns)
	default:
		verifrt.Assert(false, "MakeFilter returns Flate or LZW")
	}
	a := verifSummary(f.Predictor, f.Colors, f.BitsPerComponent, f.Columns)
	verifrt.Assert(a.pred == b.pred, "predictor survives")
	if a.pred != 1 {
		verifrt.Assert(a == b, "predictor parameters survive")
	}
}

type predictSummary struct{ pred, colors, bpc, columns int }

func verifSummary(p FlatePredictor, colors, bpc, columns int) predictSummary {
	q := predictParams(p, colors, bpc, columns)
	return predictSummary{q.Predictor, q.Colors, q.BitsPerComponent, q.Columns}
}

// Verif_C06_ccitt_params_survive: CCITTFax parameters survive the
// dictionary (K compared by its meaning: <0, 0, or the value itself).
func Verif_C06_ccitt_params_survive() {
	f := FilterCCITTFax{
		K:                      verifrt.Int("k"),
		EndOfLine:              verifrt.Bool("eol"),
		EncodedByteAlign:       verifrt.Bool("align"),
		Columns:                verifrt.Int("columns"),
		Rows:                   verifrt.Int("rows"),
		IgnoreEndOfBlock:       verifrt.Bool("ignoreeob"),
		BlackIs1:               verifrt.Bool("blackis1"),
		DamagedRowsBeforeError: verifrt.Int("damaged"),
	}
	v := verifVersion()
	name, dict, err := f.Info(v)
	if err != nil {
		verifrt.Cover("rejected")
		return
	}
	verifrt.Cover("accepted")
	g, err := MakeFilter(name, dict)
	verifrt.Assert(err == nil, "MakeFilter accepts emitted parameters")
	f2, ok := g.(FilterCCITTFax)
	verifrt.Assert(ok, "MakeFilter returns a FilterCCITTFax")
	a, b := f.toParams(), f2.toParams()
	if a.K < 0 {
		verifrt.Assert(b.K < 0, "Group 4 survives")
	} else {
		verifrt.Assert(a.K == b.K, "K survives")
	}
	verifrt.Assert(a.Columns == b.Columns, "columns survive")
	verifrt.Assert(a.MaxRows == b.MaxRows, "rows survive")
	verifrt.Assert(a.EndOfLine == b.EndOfLine && a.EncodedByteAlign == b.EncodedByteAlign && a.BlackIs1 == b.BlackIs1 && a.IgnoreEndOfBlock == b.IgnoreEndOfBlock, "flags survive")
	verifrt.Assert(a.DamagedRowsBeforeError == b.DamagedRowsBeforeError, "damaged rows survive")
}

// verifHostileValue returns a parameter value of solver-chosen type and
// magnitude (or leaves the key absent).
func verifHostileValue(d Dict, key Name) {
	switch verifrt.Choice("valkind", 7) {
	case 0:
		// absent
	case 1:
		d[key] = Integer(verifrt.Int64("valint"))
	case 2:
		d[key] = Boolean(verifrt.Bool("valbool"))
	case 3:
		d[key] = Real(1.5)
	case 4:
		d[key] = Name("X")
	case 5:
		d[key] = Array{Integer(1)}
	case 6:
		d[key] = nil
	}
}

var verifFilterNames = []Name{"ASCII85Decode", "ASCIIHexDecode", "RunLengthDecode", "FlateDecode", "LZWDecode", "CCITTFaxDecode", "DCTDecode", "JBIG2Decode", "JPXDecode", "Crypt", "Unknown"}

// Verif_C08_makefilter_total: MakeFilter is total on every filter name and
// every parameter dictionary, and what it returns for Flate/LZW/CCITTFax
// passes the write-side validation (so a read-write-read cycle is stable)
// and yields predictor parameters within the documented caps or a clean
// rejection.
func Verif_C08_makefilter_total() {
	name := verifFilterNames[verifrt.Choice("filter", len(verifFilterNames))]
	var d Dict
	if verifrt.Bool("haveparams") {
		d = Dict{}
		switch name {
		case "FlateDecode", "LZWDecode":
			verifHostileValue(d, "Predictor")
			verifHostileValue(d, "Colors")
			verifHostileValue(d, "BitsPerComponent")
			verifHostileValue(d, "Columns")
			if name == "LZWDecode" {
				verifHostileValue(d, "EarlyChange")
			}
		case "CCITTFaxDecode":
			verifHostileValue(d, "K")
			verifHostileValue(d, "Columns")
			verifHostileValue(d, "Rows")
			verifHostileValue(d, "EndOfBlock")
			verifHostileValue(d, "DamagedRowsBeforeError")
		case "DCTDecode":
			verifHostileValue(d, "ColorTransform")
		case "Crypt":
			verifHostileValue(d, "Name")
		default:
			verifHostileValue(d, "Anything")
		}
	}
	f, err := MakeFilter(name, d)
	verifrt.Cover("made")
	if err != nil {
		verifrt.Assert(IsMalformed(err) || name == "Crypt", "construction errors are classified")
		return
	}
	verifrt.Assert(f != nil, "a filter is returned")
	switch g := f.(type) {
	case FilterFlate:
		verifrt.Assert(g.validate(V2_0) == nil, "parsed Flate parameters validate")
		p := predictParams(g.Predictor, g.Colors, g.BitsPerComponent, g.Columns)
		if p.Validate() == nil && p.Predictor != 1 {
			rowBits := int64(p.Colors) * int64(p.BitsPerComponent) * int64(p.Columns)
			verifrt.Assert(rowBits > 0 && (rowBits+7)/8 <= 64<<20, "row size positive and bounded")
		}
	case FilterLZW:
		verifrt.Assert(g.validate(V2_0) == nil, "parsed LZW parameters validate")
	case FilterCCITTFax:
		verifrt.Assert(g.validate(V2_0) == nil, "parsed CCITTFax parameters validate")
		verifrt.Assert(g.Columns >= 1 && g.Columns <= 1<<20 && g.Rows >= 0 && g.Rows <= 1<<20, "CCITTFax geometry clamped")
	}
}

// Verif_C08_getfilters_chain: GetFilters on direct objects enforces the
// chain cap and the position of Crypt, whatever the shapes of /Filter and
// /DecodeParms.
func Verif_C08_getfilters_chain() {
	n := verifrt.Len("chain", 0, 10)
	arr := make(Array, n)
	for i := range arr {
		if i >= 3 {
			// keep the case split small beyond the first entries
			arr[i] = Name("RunLengthDecode")
			continue
		}
		switch verifrt.Choice("entry", 4) {
		case 0:
			arr[i] = Name("ASCIIHexDecode")
		case 1:
			arr[i] = Name("Crypt")
		case 2:
			arr[i] = Integer(7)
		case 3:
			arr[i] = nil
		}
	}
	d := Dict{"Filter": arr}
	switch verifrt.Choice("parms", 4) {
	case 0:
	case 1:
		d["DecodeParms"] = Array{nil, Dict{"Name": Name("Identity")}}
	case 2:
		d["DecodeParms"] = Dict{}
	case 3:
		d["DecodeParms"] = Array{Integer(1)}
	}
	fs, err := GetFilters(nil, nil, d)
	verifrt.Cover("resolved")
	if err == nil {
		verifrt.Assert(len(fs) == n, "one filter per entry")
		verifrt.Assert(n <= maxFilterChainLength, "chains above the cap are rejected")
		for i, f := range fs {
			if _, isCrypt := f.(CryptFilter); isCrypt {
				verifrt.Assert(i == 0, "Crypt only at position 0")
			}
		}
	}
}
