//go:build verif

package dict

import (
	"seehuhn.de/go/pdf"
	"seehuhn.de/go/pdf/internal/verifrt"
	"seehuhn.de/go/postscript/cid"
)

// specDecodeW reads a /W array as ISO 32000-2 9.7.4.3 describes it:
// "c [w1 ... wn]" gives the widths of c, c+1, ...; "cFirst cLast w" gives
// every CID of the range the width w.
func specDecodeW(w pdf.Array) (map[cid.CID]float64, bool) {
	out := map[cid.CID]float64{}
	i := 0
	num := func(o pdf.Object) (float64, bool) {
		switch x := o.(type) {
		case pdf.Integer:
			return float64(x), true
		case pdf.Real:
			return float64(x), true
		case pdf.Number:
			return float64(x), true
		}
		return 0, false
	}
	for i < len(w) {
		first, ok := w[i].(pdf.Integer)
		if !ok || i+1 >= len(w) {
			return nil, false
		}
		if arr, isArr := w[i+1].(pdf.Array); isArr {
			for k, e := range arr {
				v, ok := num(e)
				if !ok {
					return nil, false
				}
				c := cid.CID(first) + cid.CID(k)
				if _, dup := out[c]; dup {
					return nil, false
				}
				out[c] = v
			}
			i += 2
			continue
		}
		last, ok := w[i+1].(pdf.Integer)
		if !ok || i+2 >= len(w) || last < first {
			return nil, false
		}
		v, ok := num(w[i+2])
		if !ok {
			return nil, false
		}
		for c := first; c <= last; c++ {
			if _, dup := out[cid.CID(c)]; dup {
				return nil, false
			}
			out[cid.CID(c)] = v
		}
		i += 3
	}
	return out, true
}

// Verif_C14_composite_widths: the /W array written for a width map of up to
// n CIDs (consecutive or with gaps, widths from three values: every pattern
// of equal and unequal neighbours) decodes, read as the specification says,
// to exactly that map.
func Verif_C14_composite_widths() {
	max := 6
	if verifrt.Tier() > 0 {
		max = 8
	}
	n := verifrt.Len("n", 0, max)
	widths := []float64{500, 600, 722.5}
	m := map[cid.CID]float64{}
	c := cid.CID(verifrt.Choice("first", 2) * 7)
	for i := 0; i < n; i++ {
		if i > 0 {
			c += 1 + cid.CID(verifrt.Choice("gap", 2))
		}
		m[c] = widths[verifrt.Choice("width", len(widths))]
	}
	w := encodeCompositeWidths(m)
	got, ok := specDecodeW(w)
	verifrt.Cover("encoded")
	verifrt.Assert(ok, "the /W array is well formed")
	same := len(got) == len(m)
	for k, v := range m {
		if g, present := got[k]; !present || g != v {
			same = false
		}
	}
	verifrt.Assert(same, "the /W array gives every CID its width and no other CID a width")
}
