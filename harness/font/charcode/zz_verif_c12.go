//go:build verif

package charcode

import "seehuhn.de/go/pdf/internal/verifrt"

// specDecode is the reference model of ISO 32000-2 9.7.6.3, written
// independently of the tree construction: walk the input byte by byte keeping
// the ranges whose leading intervals admit the bytes seen so far.
func specDecode(rs CodeSpaceRange, s []byte) (consumed int, valid bool, complete bool) {
	cand := rs
	d := 0
	for {
		if d >= len(s) {
			// ran out of input in the middle of a code
			return len(s), false, false
		}
		var next CodeSpaceRange
		for _, r := range cand {
			if r.Low[d] <= s[d] && s[d] <= r.High[d] {
				next = append(next, r)
			}
		}
		if len(next) == 0 {
			n := specMinLen(cand)
			if n > len(s) {
				return len(s), false, false
			}
			if n < d+1 {
				n = d + 1
			}
			return n, false, true
		}
		// no code is a prefix of another: the admitting ranges either all
		// end here or all continue
		if len(next[0].Low) == d+1 {
			return d + 1, true, true
		}
		cand = next
		d++
	}
}

func specMinLen(rs CodeSpaceRange) int {
	if len(rs) == 0 {
		return 1
	}
	m := len(rs[0].Low)
	for _, r := range rs[1:] {
		if len(r.Low) < m {
			m = len(r.Low)
		}
	}
	return m
}

// specPrefixConflict reports whether some code of a shorter range is a
// proper prefix of a code of a longer range.
func specPrefixConflict(rs CodeSpaceRange) bool {
	for i, a := range rs {
		for j, b := range rs {
			if i == j || len(a.Low) >= len(b.Low) {
				continue
			}
			overlap := true
			for k := range a.Low {
				if a.High[k] < b.Low[k] || b.High[k] < a.Low[k] {
					overlap = false
				}
			}
			if overlap {
				return true
			}
		}
	}
	return false
}

func specValid(rs CodeSpaceRange, s []byte) int {
	for _, r := range rs {
		if len(s) < len(r.Low) {
			continue
		}
		ok := true
		for k := range r.Low {
			if s[k] < r.Low[k] || s[k] > r.High[k] {
				ok = false
			}
		}
		if ok {
			return len(r.Low)
		}
	}
	return 0
}

var verifNamedSets = []CodeSpaceRange{
	Simple,
	UCS2,
	UTF8,
	// 83pv-RKSJ-H like
	{
		{Low: []byte{0x00}, High: []byte{0x80}},
		{Low: []byte{0x81, 0x40}, High: []byte{0x9F, 0xFC}},
		{Low: []byte{0xA0}, High: []byte{0xDF}},
		{Low: []byte{0xE0, 0x40}, High: []byte{0xFC, 0xFC}},
		{Low: []byte{0xFD}, High: []byte{0xFF}},
	},
	// mixed 1/2/3/4 with gaps
	{
		{Low: []byte{0x20}, High: []byte{0x7E}},
		{Low: []byte{0x8E, 0xA1}, High: []byte{0x8E, 0xDF}},
		{Low: []byte{0x8F, 0xA1, 0xA1}, High: []byte{0x8F, 0xFE, 0xFE}},
		{Low: []byte{0x90, 0x10, 0x20, 0x30}, High: []byte{0x90, 0x1F, 0x2F, 0x3F}},
	},
	// the two-range set with different gaps behind different first bytes
	{
		{Low: []byte{0x00, 0x00}, High: []byte{0x00, 0x7F}},
		{Low: []byte{0x01, 0x10}, High: []byte{0x01, 0x7F}},
	},
	{},
}

func verifCheckDecode(c *Codec, rs CodeSpaceRange, probe []byte) {
	code, consumed, valid := c.Decode(probe)
	wantN, wantValid, complete := specDecode(rs, probe)
	verifrt.Observe("consumed", consumed)
	verifrt.Observe("valid", valid)
	if len(probe) == 0 {
		verifrt.Assert(consumed == 0 && !valid, "empty input")
		return
	}
	verifrt.Assert(consumed >= 1 && consumed <= len(probe), "consumed within bounds")
	if complete {
		verifrt.Assert(valid == wantValid, "valid iff in a range")
		verifrt.Assert(consumed == wantN, "consumed as specified")
	} else {
		verifrt.Assert(!valid, "truncated input is invalid")
	}
	// decode then encode reproduces the consumed bytes (when the input was
	// long enough for the code)
	if complete {
		out := c.AppendCode(nil, code)
		verifrt.Assert(len(out) == consumed, "re-encoded length")
		same := true
		for i := range out {
			if out[i] != probe[i] {
				same = false
			}
		}
		verifrt.Assert(same, "decode then encode is the identity")
		code2, n2, v2 := c.Decode(out)
		verifrt.Assert(code2 == code && n2 == consumed && v2 == valid, "encode then decode is the identity")
	} else {
		// truncated input: the returned code still holds the consumed bytes
		// (re-encoding it starts with them)
		out := c.AppendCode(nil, code)
		verifrt.Assert(len(out) >= consumed, "re-encoded truncated code is at least as long as the consumed bytes")
		same := true
		for i := 0; i < consumed && i < len(out); i++ {
			if out[i] != probe[i] {
				same = false
			}
		}
		verifrt.Assert(same, "re-encoding a truncated code reproduces the consumed bytes")
	}
}

// Verif_C12_named_sets: concrete range sets, symbolic probe of every length.
func Verif_C12_named_sets() {
	k := verifrt.Choice("set", len(verifNamedSets))
	rs := verifNamedSets[k]
	c, err := NewCodec(rs)
	verifrt.Assert(err == nil, "named set accepted")
	if err != nil {
		return
	}
	n := verifrt.Len("avail", 0, 4)
	probe := verifrt.Bytes("probe", n)
	verifrt.Cover("decoded")
	verifCheckDecode(c, rs, probe)
	// reported range set describes the same codes
	full := verifrt.Bytes("full", 4)
	rep := c.CodeSpaceRange()
	verifrt.Assert(specValid(rep, full) == specValid(rs, full), "reported ranges admit the same codes")
}

func verifSymbolicRanges(maxRanges, maxLen int) CodeSpaceRange {
	m := 1 + verifrt.Choice("nranges", maxRanges)
	var rs CodeSpaceRange
	for i := 0; i < m; i++ {
		l := 1 + verifrt.Choice("rangelen", maxLen)
		r := Range{Low: verifrt.Bytes("low", l), High: verifrt.Bytes("high", l)}
		for k := 0; k < l; k++ {
			verifrt.Assume(r.Low[k] <= r.High[k])
		}
		rs = append(rs, r)
	}
	return rs
}

// Verif_C12_symbolic_ranges: range bounds are symbolic bytes.
func Verif_C12_symbolic_ranges() {
	maxR, maxL := 2, 2
	if verifrt.Tier() > 0 {
		maxR, maxL = 3, 2
	}
	rs := verifSymbolicRanges(maxR, maxL)
	conflict := specPrefixConflict(rs)
	c, err := NewCodec(rs)
	if conflict {
		verifrt.Assert(err != nil, "prefix conflict rejected")
		return
	}
	verifrt.Assert(err == nil, "valid range set accepted")
	if err != nil {
		return
	}
	verifrt.Cover("built")
	n := verifrt.Len("avail", 1, maxL+1)
	probe := verifrt.Bytes("probe", n)
	verifCheckDecode(c, rs, probe)
}

// Verif_C12_reported_ranges: CodeSpaceRange() of a codec built from symbolic
// ranges admits exactly the original codes.
func Verif_C12_reported_ranges() {
	rs := verifSymbolicRanges(2, 2)
	verifrt.Assume(!specPrefixConflict(rs))
	c, err := NewCodec(rs)
	if err != nil {
		return
	}
	rep := c.CodeSpaceRange()
	full := verifrt.Bytes("full", 2)
	verifrt.Cover("reported")
	verifrt.Assert(specValid(rep, full) == specValid(rs, full), "reported ranges admit the same codes")
}
