//go:build verif

package cmap

import (
	"seehuhn.de/go/pdf/font/charcode"
	"seehuhn.de/go/postscript/cid"
	"seehuhn.de/go/pdf/internal/verifrt"
)

var verifCodeSpaces = []charcode.CodeSpaceRange{
	charcode.Simple,
	charcode.UCS2,
	{
		{Low: []byte{0x00}, High: []byte{0x7F}},
		{Low: []byte{0x81, 0x40}, High: []byte{0x9F, 0xFC}},
	},
}

// verifValidCode draws a symbolic code that is a valid code of the codec and
// returns it with its byte form.
func verifValidCode(codec *charcode.Codec) (charcode.Code, []byte) {
	c := charcode.Code(verifrt.Uint32("code"))
	b := codec.AppendCode(nil, c)
	back, n, valid := codec.Decode(b)
	verifrt.Assume(valid && n == len(b) && back == c)
	return c, b
}

// Verif_C13_setmapping_lookup: a CMap built from a symbolic code->CID map
// answers lookups with the mapped value (notdef result otherwise), and
// enumeration yields exactly the map.
func Verif_C13_setmapping_lookup() {
	cs := verifCodeSpaces[verifrt.Choice("codespace", len(verifCodeSpaces))]
	codec, err := charcode.NewCodec(cs)
	verifrt.Assert(err == nil, "code space accepted")
	j := 1 + verifrt.Choice("entries", 3+verifrt.Tier())
	data := map[charcode.Code]cid.CID{}
	var codes []charcode.Code
	var bytesOf [][]byte
	for i := 0; i < j; i++ {
		c, b := verifValidCode(codec)
		for _, o := range codes {
			verifrt.Assume(o != c)
		}
		codes = append(codes, c)
		bytesOf = append(bytesOf, b)
		data[c] = cid.CID(verifrt.Uint32("cid"))
	}
	f := &File{}
	f.SetMapping(codec, data)
	verifrt.Cover("mapping set")
	// every mapped code answers with its value
	for i, c := range codes {
		verifrt.Assert(f.LookupCID(bytesOf[i]) == data[c], "mapped code gives the mapped CID")
	}
	// a symbolic probe
	p, pb := verifValidCode(codec)
	want, mapped := data[p]
	got := f.LookupCID(pb)
	if mapped {
		verifrt.Assert(got == want, "probe of a mapped code gives the mapped CID")
	} else {
		verifrt.Assert(got == 0, "unmapped code gives the notdef result")
	}
	// enumeration
	seen := 0
	ok := true
	for c, v := range f.All(codec) {
		w, present := data[c]
		if !present || w != v {
			ok = false
		}
		seen++
	}
	verifrt.Assert(ok && seen == j, "enumeration yields exactly the map")
}

// Verif_C13_rangeindex: rangeIndex agrees with the position in the
// enumeration of the rectangle, for symbolic 2-byte rectangles (spans <= 3).
func Verif_C13_rangeindex() {
	first := verifrt.Bytes("first", 2)
	last := verifrt.Bytes("last", 2)
	for i := range first {
		verifrt.Assume(first[i] <= last[i] && last[i]-first[i] <= 2)
	}
	code := verifrt.Bytes("probe", 2)
	idx, ok := rangeIndex(first, last, code)
	want, found := -1, false
	for i, c := range codesInRange(first, last) {
		if c[0] == code[0] && c[1] == code[1] {
			want, found = i, true
		}
	}
	verifrt.Cover("indexed")
	verifrt.Assert(ok == found, "in the rectangle iff enumerated")
	if found {
		verifrt.Assert(idx == want, "index equals the position in the enumeration")
	}
}

var verifTexts = []string{"A", "B", "C", "AB", "AC", "", "￿", "\U0001F600", "Az", "Bé"}

// Verif_C13_tounicode: a ToUnicode CMap built from a symbolic code->text map
// (texts from a list that triggers range compression and the increment form).
func Verif_C13_tounicode() {
	cs := verifCodeSpaces[verifrt.Choice("codespace", 2)]
	codec, err := charcode.NewCodec(cs)
	verifrt.Assert(err == nil, "code space accepted")
	j := 1 + verifrt.Choice("entries", 2+verifrt.Tier())
	data := map[charcode.Code]string{}
	var codes []charcode.Code
	var bytesOf [][]byte
	for i := 0; i < j; i++ {
		c, b := verifValidCode(codec)
		for _, o := range codes {
			verifrt.Assume(o != c)
		}
		codes = append(codes, c)
		bytesOf = append(bytesOf, b)
		data[c] = verifTexts[verifrt.Choice("text", len(verifTexts))]
	}
	tu, err := NewToUnicodeFile(cs, data)
	verifrt.Assert(err == nil && tu != nil, "NewToUnicodeFile succeeds")
	verifrt.Cover("tounicode built")
	for i, c := range codes {
		s, ok := tu.Lookup(bytesOf[i])
		verifrt.Assert(ok && s == data[c], "mapped code gives the mapped text")
	}
	p, pb := verifValidCode(codec)
	want, mapped := data[p]
	got, ok := tu.Lookup(pb)
	if mapped {
		verifrt.Assert(ok && got == want, "probe of a mapped code gives the mapped text")
	} else {
		verifrt.Assert(!ok, "unmapped code is absent")
	}
	m, err := tu.GetMapping()
	verifrt.Assert(err == nil && len(m) == j, "GetMapping has one entry per code")
	same := true
	for c, v := range data {
		if m[c] != v {
			same = false
		}
	}
	verifrt.Assert(same, "GetMapping returns the map the file was built from")
}

// Verif_C13_parent_chain: a child CMap whose Parent (usecmap) holds entries
// of its own.  A code mapped by the child gives the child's value -- also when
// that value is CID 0 --, a code mapped only by the parent gives the parent's
// value, everything else the notdef result; enumeration agrees with lookup.
func Verif_C13_parent_chain() {
	cs := verifCodeSpaces[verifrt.Choice("codespace", len(verifCodeSpaces))]
	codec, err := charcode.NewCodec(cs)
	verifrt.Assert(err == nil, "code space accepted")
	mk := func(n int) (map[charcode.Code]cid.CID, *File) {
		data := map[charcode.Code]cid.CID{}
		for i := 0; i < n; i++ {
			c, _ := verifValidCode(codec)
			if _, dup := data[c]; dup {
				verifrt.Assume(false)
			}
			data[c] = cid.CID(verifrt.Uint32("cid"))
		}
		f := &File{}
		f.SetMapping(codec, data)
		return data, f
	}
	pdata, parent := mk(1 + verifrt.Choice("parententries", 2))
	cdata, child := mk(1 + verifrt.Choice("childentries", 2))
	child.Parent = parent
	verifrt.Cover("chain built")
	p, pb := verifValidCode(codec)
	got := child.LookupCID(pb)
	if v, ok := cdata[p]; ok {
		verifrt.Assert(got == v, "a code mapped by the child gives the child's CID")
	} else if v, ok := pdata[p]; ok {
		verifrt.Assert(got == v, "a code mapped only by the parent gives the parent's CID")
	} else {
		verifrt.Assert(got == 0, "unmapped code gives the notdef result")
	}
	// enumeration of the child (which includes what it inherits) agrees
	// with lookup wherever parent and child do not overlap
	agree := true
	for c, v := range child.All(codec) {
		_, inChild := cdata[c]
		_, inParent := pdata[c]
		if inChild && inParent {
			continue
		}
		if child.LookupCID(codec.AppendCode(nil, c)) != v {
			agree = false
		}
	}
	verifrt.Assert(agree, "enumeration and lookup agree")
}
