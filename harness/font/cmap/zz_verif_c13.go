//go:build verif

package cmap

import (
	"strings"
	"unicode/utf16"

	"seehuhn.de/go/pdf/font/charcode"
	"seehuhn.de/go/postscript"
	"seehuhn.de/go/postscript/cid"
	"seehuhn.de/go/pdf/internal/verifrt"
)

var verifCodeSpaces = []charcode.CodeSpaceRange{
	charcode.Simple,
	charcode.UCS2,
	{
		{Low: []byte{0x00}, High: []byte{0x7F}},
		{Low: []byte{0x81, 0x40}, High: []byte{0x9F, 0xFC}},
	},
}

// verifValidCode draws a symbolic code that is a valid code of the codec and
// returns it with its byte form.
func verifValidCode(codec *charcode.Codec) (charcode.Code, []byte) {
	c := charcode.Code(verifrt.Uint32("code"))
	b := codec.AppendCode(nil, c)
	back, n, valid := codec.Decode(b)
	verifrt.Assume(valid && n == len(b) && back == c)
	return c, b
}

// Verif_C13_setmapping_lookup: a CMap built from a symbolic code->CID map
// answers lookups with the mapped value (notdef result otherwise), and
// enumeration yields exactly the map.
func Verif_C13_setmapping_lookup() {
	cs := verifCodeSpaces[verifrt.Choice("codespace", len(verifCodeSpaces))]
	codec, err := charcode.NewCodec(cs)
	verifrt.Assert(err == nil, "code space accepted")
	j := 1 + verifrt.Choice("entries", 3+verifrt.Tier())
	data := map[charcode.Code]cid.CID{}
	var codes []charcode.Code
	var bytesOf [][]byte
	for i := 0; i < j; i++ {
		c, b := verifValidCode(codec)
		for _, o := range codes {
			verifrt.Assume(o != c)
		}
		codes = append(codes, c)
		bytesOf = append(bytesOf, b)
		data[c] = cid.CID(verifrt.Uint32("cid"))
	}
	f := &File{}
	f.SetMapping(codec, data)
	verifrt.Cover("mapping set")
	// every mapped code answers with its value
	for i, c := range codes {
		verifrt.Assert(f.LookupCID(bytesOf[i]) == data[c], "mapped code gives the mapped CID")
	}
	// a symbolic probe
	p, pb := verifValidCode(codec)
	want, mapped := data[p]
	got := f.LookupCID(pb)
	if mapped {
		verifrt.Assert(got == want, "probe of a mapped code gives the mapped CID")
	} else {
		verifrt.Assert(got == 0, "unmapped code gives the notdef result")
	}
	// enumeration
	seen := 0
	ok := true
	for c, v := range f.All(codec) {
		w, present := data[c]
		if !present || w != v {
			ok = false
		}
		seen++
	}
	verifrt.Assert(ok && seen == j, "enumeration yields exactly the map")
}

// Verif_C13_rangeindex: rangeIndex agrees with the position in the
// enumeration of the rectangle, for symbolic 2-byte rectangles (spans <= 3).
func Verif_C13_rangeindex() {
	first := verifrt.Bytes("first", 2)
	last := verifrt.Bytes("last", 2)
	for i := range first {
		verifrt.Assume(first[i] <= last[i] && last[i]-first[i] <= 2)
	}
	code := verifrt.Bytes("probe", 2)
	idx, ok := rangeIndex(first, last, code)
	want, found := -1, false
	for i, c := range codesInRange(first, last) {
		if c[0] == code[0] && c[1] == code[1] {
			want, found = i, true
		}
	}
	verifrt.Cover("indexed")
	verifrt.Assert(ok == found, "in the rectangle iff enumerated")
	if found {
		verifrt.Assert(idx == want, "index equals the position in the enumeration")
	}
}

var verifTexts = []string{"A", "B", "C", "AB", "AC", "", "￿", "\U0001F600", "Az", "Bé"}

// Verif_C13_tounicode: a ToUnicode CMap built from a symbolic code->text map
// (texts from a list that triggers range compression and the increment form).
func Verif_C13_tounicode() {
	cs := verifCodeSpaces[verifrt.Choice("codespace", 2)]
	codec, err := charcode.NewCodec(cs)
	verifrt.Assert(err == nil, "code space accepted")
	j := 1 + verifrt.Choice("entries", 2+verifrt.Tier())
	data := map[charcode.Code]string{}
	var codes []charcode.Code
	var bytesOf [][]byte
	for i := 0; i < j; i++ {
		c, b := verifValidCode(codec)
		for _, o := range codes {
			verifrt.Assume(o != c)
		}
		codes = append(codes, c)
		bytesOf = append(bytesOf, b)
		data[c] = verifTexts[verifrt.Choice("text", len(verifTexts))]
	}
	tu, err := NewToUnicodeFile(cs, data)
	verifrt.Assert(err == nil && tu != nil, "NewToUnicodeFile succeeds")
	verifrt.Cover("tounicode built")
	for i, c := range codes {
		s, ok := tu.Lookup(bytesOf[i])
		verifrt.Assert(ok && s == data[c], "mapped code gives the mapped text")
	}
	p, pb := verifValidCode(codec)
	want, mapped := data[p]
	got, ok := tu.Lookup(pb)
	if mapped {
		verifrt.Assert(ok && got == want, "probe of a mapped code gives the mapped text")
	} else {
		verifrt.Assert(!ok, "unmapped code is absent")
	}
	m, err := tu.GetMapping()
	verifrt.Assert(err == nil && len(m) == j, "GetMapping has one entry per code")
	same := true
	for c, v := range data {
		if m[c] != v {
			same = false
		}
	}
	verifrt.Assert(same, "GetMapping returns the map the file was built from")
}

// Verif_C13_parent_chain: a child CMap whose Parent (usecmap) holds entries
// of its own.  A code mapped by the child gives the child's value -- also when
// that value is CID 0 --, a code mapped only by the parent gives the parent's
// value, everything else the notdef result; enumeration agrees with lookup.
func Verif_C13_parent_chain() {
	cs := verifCodeSpaces[verifrt.Choice("codespace", len(verifCodeSpaces))]
	codec, err := charcode.NewCodec(cs)
	verifrt.Assert(err == nil, "code space accepted")
	mk := func(n int) (map[charcode.Code]cid.CID, *File) {
		data := map[charcode.Code]cid.CID{}
		for i := 0; i < n; i++ {
			c, _ := verifValidCode(codec)
			if _, dup := data[c]; dup {
				verifrt.Assume(false)
			}
			data[c] = cid.CID(verifrt.Uint32("cid"))
		}
		f := &File{}
		f.SetMapping(codec, data)
		return data, f
	}
	pdata, parent := mk(1 + verifrt.Choice("parententries", 2))
	cdata, child := mk(1 + verifrt.Choice("childentries", 2))
	child.Parent = parent
	verifrt.Cover("chain built")
	p, pb := verifValidCode(codec)
	got := child.LookupCID(pb)
	if v, ok := cdata[p]; ok {
		verifrt.Assert(got == v, "a code mapped by the child gives the child's CID")
	} else if v, ok := pdata[p]; ok {
		verifrt.Assert(got == v, "a code mapped only by the parent gives the parent's CID")
	} else {
		verifrt.Assert(got == 0, "unmapped code gives the notdef result")
	}
	// enumeration of the child (which includes what it inherits) agrees
	// with lookup wherever parent and child do not overlap
	agree := true
	for c, v := range child.All(codec) {
		_, inChild := cdata[c]
		_, inParent := pdata[c]
		if inChild && inParent {
			continue
		}
		if child.LookupCID(codec.AppendCode(nil, c)) != v {
			agree = false
		}
	}
	verifrt.Assert(agree, "enumeration and lookup agree")
}

// refUTF16BE decodes big-endian UTF-16 (ISO 10646 annex C): surrogate pairs
// combine, unpaired surrogates become U+FFFD; returns the code points.
func refUTF16BE(b []byte) []rune {
	var out []rune
	for i := 0; i+1 < len(b); i += 2 {
		u := rune(b[i])<<8 | rune(b[i+1])
		if u >= 0xd800 && u < 0xdc00 && i+3 < len(b) {
			v := rune(b[i+2])<<8 | rune(b[i+3])
			if v >= 0xdc00 && v < 0xe000 {
				out = append(out, 0x10000+(u-0xd800)<<10+(v-0xdc00))
				i += 2
				continue
			}
		}
		if u >= 0xd800 && u < 0xe000 {
			u = 0xfffd
		}
		out = append(out, u)
	}
	return out
}

// Verif_C13_tounicode_text: the destination strings of an extracted
// ToUnicode CMap are UTF-16BE; toString on 1-2 (thorough: 3) code units yields
// exactly the code points of the reference decoder (nothing dropped, nothing
// reinterpreted).
func Verif_C13_tounicode_text() {
	// code units from the boundary values of UTF-16 (the conversion of a
	// symbolic code point to UTF-8 text is enumerated value by value by the
	// engine, so the units are concrete per path): 1-3 units
	units := []uint16{0x0041, 0x00e9, 0x07ff, 0x0800, 0xd7ff, 0xd800, 0xd83d, 0xdbff, 0xdc00, 0xde00, 0xdfff, 0xe000, 0xfeff, 0xfffe, 0xffff}
	var b []byte
	for i := 0; i < 1+verifrt.Choice("moreunits", 2+verifrt.Tier()); i++ {
		u := units[verifrt.Choice("unit", len(units))]
		b = append(b, byte(u>>8), byte(u))
	}
	s, err := toString(postscript.String(b))
	verifrt.Assert(err == nil, "even-length destination accepted")
	want := refUTF16BE(b)
	got := []rune(s)
	verifrt.Cover("decoded")
	same := len(got) == len(want)
	for i := range want {
		if i < len(got) && got[i] != want[i] {
			same = false
		}
	}
	verifrt.Assert(same, "destination text is the UTF-16BE decoding of the bytes")
}

// verifRunTexts: texts whose last code point sits at the edges of the
// Unicode range, where "the next code point" does not exist or is not what
// incrementing a number gives (surrogates, U+FFFD, U+10FFFF).
var verifRunTexts = []string{"A", "B", "C", "퟿", "�", "￾", "￿", "\U00010000", "\U0010ffff", "x퟿", "x�"}

// Verif_C13_tounicode_runs: three (thorough: four) consecutive one-byte codes
// with texts from the boundary list, so that run compression is attempted on
// every pattern of neighbours: every code looks up to its own text.
func Verif_C13_tounicode_runs() {
	cs := charcode.Simple
	n := 3 + verifrt.Tier()
	base := charcode.Code(verifrt.IntRange("base", 0, 200))
	data := map[charcode.Code]string{}
	for i := 0; i < n; i++ {
		data[base+charcode.Code(i)] = verifRunTexts[verifrt.Choice("text", len(verifRunTexts))]
	}
	tu, err := NewToUnicodeFile(cs, data)
	verifrt.Assert(err == nil && tu != nil, "NewToUnicodeFile succeeds")
	verifrt.Cover("tounicode built")
	all := true
	for i := 0; i < n; i++ {
		c := base + charcode.Code(i)
		s, ok := tu.Lookup([]byte{byte(c)})
		if !ok || s != data[c] {
			all = false
		}
	}
	verifrt.Assert(all, "every code of a run gives its own text")
}

// Verif_C13_tounicode_reader: a ToUnicode CMap written by hand as the
// specification lays it out (one bfchar and one bfrange with a single
// destination, codes and destination units solver-chosen from boundary
// values) is read by the extraction code; lookups give the intended texts.
func Verif_C13_tounicode_reader() {
	hexd := "0123456789abcdef"
	hex2 := func(b byte) string { return string([]byte{hexd[b>>4], hexd[b&15]}) }
	units := []uint16{0x0041, 0x00e9, 0xd7ff, 0xe000, 0xfeff, 0xfffd}
	c1 := byte(verifrt.IntRange("single", 0, 255))
	lo := byte(verifrt.IntRange("first", 0, 250))
	span := byte(verifrt.Choice("span", 3))
	verifrt.Assume(c1 < lo || c1 > lo+span)
	u1 := units[verifrt.Choice("unit", len(units))]
	u2 := units[verifrt.Choice("unit", len(units))]
	text := "/CIDInit /ProcSet findresource begin\n12 dict begin\nbegincmap\n" +
		"/CIDSystemInfo << /Registry (Adobe) /Ordering (UCS) /Supplement 0 >> def\n" +
		"/CMapName /Adobe-Identity-UCS def\n/CMapType 2 def\n" +
		"1 begincodespacerange\n<00> <ff>\nendcodespacerange\n" +
		"1 beginbfchar\n<" + hex2(c1) + "> <" + hex2(byte(u1>>8)) + hex2(byte(u1)) + ">\nendbfchar\n" +
		"1 beginbfrange\n<" + hex2(lo) + "> <" + hex2(lo+span) + "> <" + hex2(byte(u2>>8)) + hex2(byte(u2)) + ">\nendbfrange\n" +
		"endcmap\nCMapName currentdict /CMap defineresource pop\nend\nend\n"
	tu, err := readToUnicode(strings.NewReader(text))
	verifrt.Assert(err == nil && tu != nil, "conforming ToUnicode CMap is read")
	if err != nil {
		return
	}
	verifrt.Cover("read")
	got, ok := tu.Lookup([]byte{c1})
	verifrt.Assert(ok && got == string(utf16.Decode([]uint16{u1})), "bfchar destination")
	for i := byte(0); i <= span; i++ {
		got, ok := tu.Lookup([]byte{lo + i})
		want := []rune(string(utf16.Decode([]uint16{u2})))
		want[len(want)-1] += rune(i)
		verifrt.Assert(ok && got == string(want), "bfrange destination incremented by the offset")
	}
}

// Verif_C13_cmap_reader: a code-to-CID CMap written by hand (two-byte code
// space, one cidchar, one cidrange, one notdefrange; the cidchar's low byte
// and the probe's low byte symbolic, the rest from boundary lists)
// is read by the extraction code: every code looks up to the CID the file
// says, codes outside give the notdef CID or 0.
func Verif_C13_cmap_reader() {
	hexd := "0123456789abcdef"
	hex2 := func(b byte) string { return string([]byte{hexd[b>>4], hexd[b&15]}) }
	dec := func(n int) string {
		if n == 0 {
			return "0"
		}
		s := ""
		for n > 0 {
			s = string([]byte{byte('0' + n%10)}) + s
			n /= 10
		}
		return s
	}
	hi := []byte{0x00, 0x81, 0xff}[verifrt.Choice("hi", 3)]
	c1 := byte(verifrt.IntRange("single", 0, 255))
	lo := []byte{0x00, 0x40, 0xfa}[verifrt.Choice("first", 3)]
	span := byte(verifrt.Choice("span", 3))
	verifrt.Assume(c1 < lo || c1 > lo+span)
	cid1 := verifrt.Choice("cid1", 3) * 7000
	cid2 := []int{1, 255, 65530}[verifrt.Choice("cid2", 3)]
	text := "/CIDInit /ProcSet findresource begin\n12 dict begin\nbegincmap\n" +
		"/CIDSystemInfo << /Registry (Adobe) /Ordering (Identity) /Supplement 0 >> def\n" +
		"/CMapName /Test def\n/CMapType 1 def\n/WMode 0 def\n" +
		"1 begincodespacerange\n<0000> <ffff>\nendcodespacerange\n" +
		"1 beginnotdefrange\n<" + hex2(hi) + "00> <" + hex2(hi) + "ff> 3\nendnotdefrange\n" +
		"1 begincidchar\n<" + hex2(hi) + hex2(c1) + "> " + dec(cid1) + "\nendcidchar\n" +
		"1 begincidrange\n<" + hex2(hi) + hex2(lo) + "> <" + hex2(hi) + hex2(lo+span) + "> " + dec(cid2) + "\nendcidrange\n" +
		"endcmap\nCMapName currentdict /CMap defineresource pop\nend\nend\n"
	f, _, err := readCMap(strings.NewReader(text))
	verifrt.Assert(err == nil && f != nil, "conforming CMap is read")
	if err != nil {
		return
	}
	verifrt.Cover("read")
	verifrt.Assert(int(f.LookupCID([]byte{hi, c1})) == cid1 || cid1 == 0, "cidchar")
	for i := byte(0); i <= span; i++ {
		verifrt.Assert(int(f.LookupCID([]byte{hi, lo + i})) == cid2+int(i), "cidrange incremented by the offset")
	}
	p := []byte{hi ^ byte(verifrt.Choice("otherrow", 2)), verifrt.Byte("probe")}
	inChar := p[0] == hi && p[1] == c1
	inRange := p[0] == hi && p[1] >= lo && p[1] <= lo+span
	if !inChar && !inRange {
		want := 0
		if p[0] == hi {
			want = 3
		}
		verifrt.Assert(int(f.LookupCID(p)) == want, "other codes give the notdef CID of their range or 0")
	}
}
