//go:build verif

package cidenc

import (
	"seehuhn.de/go/pdf"
	"seehuhn.de/go/pdf/font/charcode"
	"seehuhn.de/go/pdf/font/cmap"
	"seehuhn.de/go/pdf/internal/verifrt"
	"seehuhn.de/go/postscript/cid"
)

// Verif_C14_cid_encoder: the encoder of composite fonts with a fixed CMap
// (the default Identity encoding is one) driven the way the composite font
// types drive it: for every glyph shown, GetCode, and Encode if that fails.
// The CMap maps three two-byte codes (the first symbolic in the thorough
// tier) to three CIDs; a sequence of
// glyphs (CID, text from a list, width by CID) is shown.  Every glyph gets a
// code, the string of codes decodes into as many codes as glyphs were shown,
// each with the glyph's CID and width.
func Verif_C14_cid_encoder() {
	codec, err := charcode.NewCodec(charcode.UCS2)
	verifrt.Assert(err == nil, "code space accepted")
	m := map[charcode.Code]cid.CID{}
	cids := []cid.CID{3, 4, 7}
	var codes []charcode.Code
	for _, c := range cids {
		code := []charcode.Code{0x0041, 0x0100, 0xffff}[len(codes)]
		if verifrt.Tier() > 0 && len(codes) == 0 {
			code = charcode.Code(verifrt.Uint16("code"))
			verifrt.Assume(code != 0x0100 && code != 0xffff)
		}
		codes = append(codes, code)
		m[code] = c
	}
	f := &cmap.File{}
	f.SetMapping(codec, m)
	enc, err := NewFromCMap(f, 500)
	verifrt.Assert(err == nil, "encoder built")
	texts := []string{"-", "­", "fi", ""}
	n := 2 + verifrt.Choice("glyphs", 2)
	var s pdf.String
	var shown []cid.CID
	for i := 0; i < n; i++ {
		k := verifrt.Choice("cid", len(cids))
		c := cids[k]
		text := texts[verifrt.Choice("text", len(texts))]
		width := float64(400 + 100*k)
		code, ok := enc.GetCode(c, text)
		if !ok {
			var err error
			code, err = enc.Encode(c, text, width)
			ok = err == nil
		}
		verifrt.Assert(ok, "every glyph of the CMap gets a code")
		if !ok {
			return
		}
		verifrt.Assert(code == codes[k], "the code is the one the CMap assigns to the CID")
		s = enc.Codec().AppendCode(s, code)
		shown = append(shown, c)
	}
	verifrt.Cover("encoded")
	i := 0
	all := true
	for c := range enc.Codes(s) {
		if i >= len(shown) || c.CID != shown[i] || c.Width*1000 != float64(400+100*verifIndex(cids, shown[i])) {
			all = false
		}
		i++
	}
	verifrt.Assert(all && i == len(shown), "the string decodes into the glyphs shown, with their CIDs and widths")
}

func verifIndex(cids []cid.CID, c cid.CID) int {
	for i, x := range cids {
		if x == c {
			return i
		}
	}
	return -1
}
