//go:build verif

package simpleenc

import (
	"seehuhn.de/go/pdf"
	"seehuhn.de/go/pdf/font/pdfenc"
	"seehuhn.de/go/pdf/internal/verifrt"
	"seehuhn.de/go/sfnt/glyph"
)

var verifTexts = []string{"A", "B", "fi", "Ä", " "}

// Verif_C14_simple_encoder: a sequence of (glyph, text, width) requests with
// symbolic glyph IDs: distinct pairs never share a code, GetCode returns the
// allocated code, a repeated pair is reported, and decoding a string of the
// allocated codes yields one code per byte with the recorded width and text.
func Verif_C14_simple_encoder() {
	n := 2 + verifrt.Tier()
	enc := NewSimple(500, "Test", &pdfenc.Standard)
	type req struct {
		gid   glyph.ID
		text  string
		width float64
		code  byte
		dup   bool
	}
	reqs := make([]req, n)
	for i := range reqs {
		r := &reqs[i]
		r.gid = glyph.ID(verifrt.IntRange("gid", 1, 3))
		r.text = verifTexts[verifrt.Choice("text", len(verifTexts))]
		r.width = float64(100 * (i + 1))
		for j := 0; j < i; j++ {
			if reqs[j].gid == r.gid && reqs[j].text == r.text && !reqs[j].dup {
				r.dup = true
			}
		}
		code, err := enc.Encode(r.gid, "", r.text, r.width)
		if r.dup {
			verifrt.Assert(err == ErrDuplicateCode, "a repeated (glyph, text) pair is reported")
			continue
		}
		verifrt.Assert(err == nil, "Encode allocates a code")
		r.code = code
	}
	verifrt.Cover("encoded")
	var s pdf.String
	var live []req
	for i, r := range reqs {
		if r.dup {
			continue
		}
		for j := 0; j < i; j++ {
			if !reqs[j].dup {
				verifrt.Assert(reqs[j].code != r.code, "distinct (glyph, text) pairs never share a code")
			}
		}
		c, ok := enc.GetCode(r.gid, r.text)
		verifrt.Assert(ok && c == r.code, "GetCode returns the allocated code")
		s = append(s, r.code)
		live = append(live, r)
	}
	i := 0
	for code := range enc.Codes(s) {
		verifrt.Assert(i < len(live), "one code per byte")
		if i < len(live) {
			verifrt.Assert(code.Width == live[i].width/1000 && code.Text == live[i].text, "decoded width and text are the recorded ones")
			verifrt.Assert(code.CID != 0, "allocated codes do not decode to notdef")
		}
		i++
	}
	verifrt.Assert(i == len(live), "every byte yields a code")
}

// Verif_C14_simple_overflow: after 256 distinct allocations the 257th fails
// with ErrOverflow and no earlier code is lost.
func Verif_C14_simple_overflow() {
	verifrt.Unwind(100000)
	enc := NewSimple(500, "Test", &pdfenc.Standard)
	used := map[byte]bool{}
	for i := 0; i < 256; i++ {
		c, err := enc.Encode(glyph.ID(i+1), "", "A", 500)
		verifrt.Assert(err == nil && !used[c], "256 distinct codes are available")
		used[c] = true
	}
	gid := glyph.ID(verifrt.IntRange("gid", 257, 300))
	_, err := enc.Encode(gid, "", "B", 500)
	verifrt.Cover("overflow")
	verifrt.Assert(err == ErrOverflow, "the 257th allocation reports ErrOverflow")
	verifrt.Assert(enc.CodesRemaining() == 0, "no codes remain")
}
