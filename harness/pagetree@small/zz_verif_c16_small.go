//go:build verif

package pagetree

import "seehuhn.de/go/pdf/internal/verifrt"

// Verif_C16_programs_small_fanout: solver-chosen programs of appends, nested
// ranges, closes and page-number callbacks with the fan-out constant reduced
// to 3 (checked source substitution), so that every tree shape up to depth 3
// is reached with few pages.
func Verif_C16_programs_small_fanout() {
	verifRunProgram(6+2*verifrt.Tier(), false)
}

// Verif_C16_inheritance_small_fanout: per-page Rotate and MediaBox drawn from
// small sets so that hoisting into parents is triggered in every pattern.
func Verif_C16_inheritance_small_fanout() {
	verifRunProgram(4+verifrt.Tier(), true)
}
