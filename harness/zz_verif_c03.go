//go:build verif

package pdf

import (
	"bytes"
	"compress/zlib"
	"io"

	"seehuhn.de/go/pdf/internal/verifrt"
)

// A strict structural reader written from ISO 32000-1 7.3 and 7.5.  It shares
// no code with the library's scanner or cross-reference readers (only the
// Object types, to report values, and compress/zlib from the standard
// library).  Every deviation from the exact syntax is a failure.

type sParser struct {
	d   []byte
	p   int
	bad bool
}

func (s *sParser) fail() { s.bad = true }

func (s *sParser) lit(t string) bool {
	if s.p+len(t) > len(s.d) {
		return false
	}
	for i := 0; i < len(t); i++ {
		if s.d[s.p+i] != t[i] {
			return false
		}
	}
	s.p += len(t)
	return true
}

func sIsWS(c byte) bool {
	return c == 0 || c == 9 || c == 10 || c == 12 || c == 13 || c == 32
}

func sIsDelim(c byte) bool {
	switch c {
	case '(', ')', '<', '>', '[', ']', '{', '}', '/', '%':
		return true
	}
	return false
}

func (s *sParser) ws() {
	for s.p < len(s.d) && sIsWS(s.d[s.p]) {
		s.p++
	}
}

// uint reads a non-empty run of decimal digits (at most maxDigits).
func (s *sParser) uint(maxDigits int) (int64, int, bool) {
	start := s.p
	var v int64
	for s.p < len(s.d) && s.d[s.p] >= '0' && s.d[s.p] <= '9' && s.p-start < maxDigits {
		v = v*10 + int64(s.d[s.p]-'0')
		s.p++
	}
	return v, s.p - start, s.p > start
}

func sHex(c byte) (byte, bool) {
	switch {
	case c >= '0' && c <= '9':
		return c - '0', true
	case c >= 'a' && c <= 'f':
		return c - 'a' + 10, true
	case c >= 'A' && c <= 'F':
		return c - 'A' + 10, true
	}
	return 0, false
}

// object parses one direct object (ISO 32000-1 7.3).
func (s *sParser) object(depth int) Object {
	if s.bad || depth > 8 || s.p >= len(s.d) {
		s.fail()
		return nil
	}
	c := s.d[s.p]
	switch {
	case c == '/':
		s.p++
		var name []byte
		for s.p < len(s.d) && !sIsWS(s.d[s.p]) && !sIsDelim(s.d[s.p]) {
			b := s.d[s.p]
			if b == '#' {
				if s.p+2 >= len(s.d) {
					s.fail()
					return nil
				}
				h, ok1 := sHex(s.d[s.p+1])
				l, ok2 := sHex(s.d[s.p+2])
				if !ok1 || !ok2 {
					s.fail()
					return nil
				}
				name = append(name, h<<4|l)
				s.p += 3
				continue
			}
			if b < 0x21 || b > 0x7e {
				s.fail() // must have been written with #xx
				return nil
			}
			name = append(name, b)
			s.p++
		}
		return Name(name)
	case c == '(':
		s.p++
		var str []byte
		level := 1
		for {
			if s.p >= len(s.d) {
				s.fail()
				return nil
			}
			b := s.d[s.p]
			s.p++
			switch b {
			case '(':
				level++
				str = append(str, b)
			case ')':
				level--
				if level == 0 {
					return String(str)
				}
				str = append(str, b)
			case '\\':
				if s.p >= len(s.d) {
					s.fail()
					return nil
				}
				e := s.d[s.p]
				s.p++
				switch e {
				case 'n':
					str = append(str, '\n')
				case 'r':
					str = append(str, '\r')
				case 't':
					str = append(str, '\t')
				case 'b':
					str = append(str, '\b')
				case 'f':
					str = append(str, '\f')
				case '(', ')', '\\':
					str = append(str, e)
				case '\n':
				case '\r':
					if s.p < len(s.d) && s.d[s.p] == '\n' {
						s.p++
					}
				default:
					if e >= '0' && e <= '7' {
						v := e - '0'
						for k := 0; k < 2 && s.p < len(s.d) && s.d[s.p] >= '0' && s.d[s.p] <= '7'; k++ {
							v = v*8 + (s.d[s.p] - '0')
							s.p++
						}
						str = append(str, v)
					} else {
						str = append(str, e)
					}
				}
			case '\r':
				// an unescaped end-of-line inside a string reads as LF
				str = append(str, '\n')
				if s.p < len(s.d) && s.d[s.p] == '\n' {
					s.p++
				}
			default:
				str = append(str, b)
			}
		}
	case c == '<' && s.p+1 < len(s.d) && s.d[s.p+1] == '<':
		s.p += 2
		d := Dict{}
		for {
			s.ws()
			if s.lit(">>") {
				return d
			}
			k, ok := s.object(depth + 1).(Name)
			if s.bad || !ok {
				s.fail()
				return nil
			}
			s.ws()
			v := s.value(depth + 1)
			if s.bad {
				return nil
			}
			if _, dup := d[k]; dup {
				s.fail()
				return nil
			}
			d[k] = v
		}
	case c == '<':
		s.p++
		var str []byte
		have := false
		var hi byte
		for {
			if s.p >= len(s.d) {
				s.fail()
				return nil
			}
			b := s.d[s.p]
			s.p++
			if b == '>' {
				if have {
					str = append(str, hi<<4)
				}
				return String(str)
			}
			if sIsWS(b) {
				continue
			}
			v, ok := sHex(b)
			if !ok {
				s.fail()
				return nil
			}
			if have {
				str = append(str, hi<<4|v)
				have = false
			} else {
				hi, have = v, true
			}
		}
	case c == '[':
		s.p++
		a := Array{}
		for {
			s.ws()
			if s.lit("]") {
				return a
			}
			v := s.value(depth + 1)
			if s.bad {
				return nil
			}
			a = append(a, v)
		}
	case s.lit("null"):
		return nil
	case s.lit("true"):
		return Boolean(true)
	case s.lit("false"):
		return Boolean(false)
	case c == '-' || c == '+' || c == '.' || (c >= '0' && c <= '9'):
		neg := false
		if c == '-' || c == '+' {
			neg = c == '-'
			s.p++
		}
		v, _, ok := s.uint(19)
		if s.p < len(s.d) && s.d[s.p] == '.' {
			// real: skip the fraction; only the integer part is reported
			s.p++
			s.uint(400)
			if neg {
				return Real(-float64(v))
			}
			return Real(float64(v))
		}
		if !ok {
			s.fail()
			return nil
		}
		if neg {
			v = -v
		}
		return Integer(v)
	}
	s.fail()
	return nil
}

// value parses an object that may be an indirect reference "n g R".
func (s *sParser) value(depth int) Object {
	start := s.p
	o := s.object(depth)
	if n, ok := o.(Integer); ok && n >= 0 && !s.bad {
		save := s.p
		if s.lit(" ") {
			g, _, ok := s.uint(5)
			if ok && s.lit(" R") && (s.p >= len(s.d) || sIsWS(s.d[s.p]) || sIsDelim(s.d[s.p])) {
				return NewReference(uint32(n), uint16(g))
			}
		}
		s.p = save
	}
	_ = start
	return o
}

type sEntry struct {
	kind   int // 0 free, 1 in use, 2 compressed
	f2, f3 int64
}

type sObject struct {
	num, gen   int64
	val        Object
	isStream   bool
	data       []byte // raw stream bytes
	end        int    // offset just after "endobj\n"
	lengthSpec Object
}

// indirect parses "N G obj\n value \nendobj\n" or the stream form at off,
// resolving an indirect /Length through get.
func sIndirect(d []byte, off int64, getLen func(Reference) (int64, bool)) (*sObject, bool) {
	if off < 0 || off >= int64(len(d)) {
		return nil, false
	}
	s := &sParser{d: d, p: int(off)}
	num, _, ok1 := s.uint(10)
	ok2 := s.lit(" ")
	gen, _, ok3 := s.uint(5)
	if !ok1 || !ok2 || !ok3 || !s.lit(" obj\n") {
		return nil, false
	}
	o := &sObject{num: num, gen: gen}
	o.val = s.value(0)
	if s.bad {
		return nil, false
	}
	if s.lit("\nendobj\n") {
		o.end = s.p
		return o, true
	}
	dict, isDict := o.val.(Dict)
	if !isDict || !s.lit("\nstream\n") {
		return nil, false
	}
	o.isStream = true
	o.lengthSpec = dict["Length"]
	var n int64
	switch l := dict["Length"].(type) {
	case Integer:
		n = int64(l)
	case Reference:
		v, ok := getLen(l)
		if !ok {
			return nil, false
		}
		n = v
	default:
		return nil, false
	}
	if n < 0 || s.p+int(n) > len(d) {
		return nil, false
	}
	o.data = d[s.p : s.p+int(n)]
	s.p += int(n)
	if !s.lit("\nendstream\nendobj\n") {
		return nil, false
	}
	o.end = s.p
	return o, true
}

func sInflate(raw []byte) ([]byte, bool) {
	zr, err := zlib.NewReader(&verifrt.ChunkReader{Data: raw, EOF: io.EOF})
	if err != nil {
		return nil, false
	}
	out, err, exhausted := verifrt.ReadAll(zr, 4096, len(raw)/16+64)
	if exhausted || err != io.EOF {
		return nil, false
	}
	return out, true
}

type sFile struct {
	entries map[int64]sEntry
	size    int64
	trailer Dict
	ok      bool
	why     string

	containers map[int64]*sContainer
}

func sFail(why string) *sFile { return &sFile{why: why} }

// sReadXRef reads the single cross-reference section of a file written in
// one pass.
func sReadXRef(d []byte) *sFile {
	s := &sParser{d: d}
	if !s.lit("%PDF-") {
		return sFail("no header")
	}
	// trailer: "startxref\n<digits>\n%%EOF\n" at the very end
	end := len(d)
	tail := "\n%%EOF\n"
	if end < len(tail)+11 {
		return sFail("file too short")
	}
	for i := 0; i < len(tail); i++ {
		if d[end-len(tail)+i] != tail[i] {
			return sFail("no %%EOF at the end")
		}
	}
	q := end - len(tail)
	digitsEnd := q
	for q > 0 && d[q-1] >= '0' && d[q-1] <= '9' {
		q--
	}
	if q == digitsEnd {
		return sFail("no startxref offset")
	}
	sp := &sParser{d: d, p: q}
	xpos, _, _ := sp.uint(12)
	const kw = "startxref\n"
	if q < len(kw) {
		return sFail("no startxref")
	}
	for i := 0; i < len(kw); i++ {
		if d[q-len(kw)+i] != kw[i] {
			return sFail("no startxref keyword")
		}
	}
	f := &sFile{entries: map[int64]sEntry{}}
	x := &sParser{d: d, p: int(xpos)}
	if x.lit("xref\n") {
		for {
			if x.lit("trailer\n") {
				break
			}
			start, _, ok1 := x.uint(10)
			ok2 := x.lit(" ")
			count, _, ok3 := x.uint(10)
			if !ok1 || !ok2 || !ok3 || !x.lit("\n") {
				return sFail("bad subsection header")
			}
			for i := int64(0); i < count; i++ {
				// exactly 20 bytes: nnnnnnnnnn ggggg n|f EOL(2 bytes)
				a, n1, _ := x.uint(10)
				okA := n1 == 10 && x.lit(" ")
				g, n2, _ := x.uint(5)
				okB := n2 == 5 && x.lit(" ")
				if !okA || !okB || x.p+3 > len(d) {
					return sFail("bad xref line")
				}
				t := d[x.p]
				eol := [2]byte{d[x.p+1], d[x.p+2]}
				x.p += 3
				if !(eol == [2]byte{' ', '\n'} || eol == [2]byte{'\r', '\n'} || eol == [2]byte{' ', '\r'}) {
					return sFail("xref line is not 20 bytes with a 2-byte EOL")
				}
				if _, dup := f.entries[start+i]; dup {
					return sFail("duplicate xref entry")
				}
				switch t {
				case 'n':
					f.entries[start+i] = sEntry{1, a, g}
				case 'f':
					f.entries[start+i] = sEntry{0, a, g}
				default:
					return sFail("bad xref entry type")
				}
			}
		}
		tr, ok := x.value(0).(Dict)
		if x.bad || !ok {
			return sFail("bad trailer dictionary")
		}
		f.trailer = tr
	} else {
		o, ok := sIndirect(d, int64(xpos), func(Reference) (int64, bool) { return 0, false })
		if !ok || !o.isStream {
			return sFail("startxref points neither at an xref table nor at an xref stream")
		}
		dict := o.val.(Dict)
		f.trailer = dict
		if dict["Type"] != Name("XRef") {
			return sFail("xref stream without /Type /XRef")
		}
		wArr, ok := dict["W"].(Array)
		if !ok || len(wArr) != 3 {
			return sFail("bad /W")
		}
		var w [3]int
		for i := range w {
			v, ok := wArr[i].(Integer)
			if !ok || v < 0 || v > 8 {
				return sFail("bad /W entry")
			}
			w[i] = int(v)
		}
		size, ok := dict["Size"].(Integer)
		if !ok {
			return sFail("xref stream without /Size")
		}
		index := []int64{0, int64(size)}
		if ia, ok := dict["Index"].(Array); ok {
			index = nil
			for _, e := range ia {
				v, ok := e.(Integer)
				if !ok {
					return sFail("bad /Index")
				}
				index = append(index, int64(v))
			}
			if len(index)%2 != 0 {
				return sFail("odd /Index")
			}
		}
		data := o.data
		if dict["Filter"] != nil {
			if dict["Filter"] != Name("FlateDecode") {
				return sFail("unexpected xref stream filter")
			}
			var ok bool
			data, ok = sInflate(o.data)
			if !ok {
				return sFail("xref stream does not inflate")
			}
		}
		cols := w[0] + w[1] + w[2]
		if parms, ok := dict["DecodeParms"].(Dict); ok {
			if parms["Predictor"] != Integer(12) || parms["Columns"] != Integer(cols) {
				return sFail("unexpected xref predictor parameters")
			}
			// PNG Up: rows of 1+cols bytes
			if len(data)%(cols+1) != 0 {
				return sFail("predictor rows do not divide the data")
			}
			prev := make([]byte, cols)
			var out []byte
			for r := 0; r < len(data); r += cols + 1 {
				if data[r] != 2 {
					return sFail("predictor row tag is not Up")
				}
				cur := make([]byte, cols)
				for c := 0; c < cols; c++ {
					cur[c] = data[r+1+c] + prev[c]
				}
				out = append(out, cur...)
				prev = cur
			}
			data = out
		}
		pos := 0
		field := func(n int, def int64) int64 {
			if n == 0 {
				return def
			}
			var v int64
			for i := 0; i < n; i++ {
				v = v<<8 | int64(data[pos])
				pos++
			}
			return v
		}
		for k := 0; k+1 < len(index); k += 2 {
			for i := int64(0); i < index[k+1]; i++ {
				if pos+cols > len(data) {
					return sFail("xref stream too short")
				}
				t := field(w[0], 1)
				f2 := field(w[1], 0)
				f3 := field(w[2], 0)
				n := index[k] + i
				if _, dup := f.entries[n]; dup {
					return sFail("duplicate xref stream entry")
				}
				if t < 0 || t > 2 {
					return sFail("bad xref stream entry type")
				}
				f.entries[n] = sEntry{int(t), f2, f3}
			}
		}
		if pos != len(data) {
			return sFail("xref stream has surplus bytes")
		}
	}
	size, ok := f.trailer["Size"].(Integer)
	if !ok {
		return sFail("no /Size")
	}
	f.size = int64(size)
	f.ok = true
	return f
}

// sGet fetches object n through the strict reader.
// sContainer is a validated object stream: its decoded body and header table.
type sContainer struct {
	body  []byte
	first int64
	nums  []int64
	offs  []int64
}

// container decodes and validates object stream number num once.
func (f *sFile) container(d []byte, num int64, getLen func(Reference) (int64, bool)) *sContainer {
	if c, done := f.containers[num]; done {
		return c
	}
	if f.containers == nil {
		f.containers = map[int64]*sContainer{}
	}
	f.containers[num] = nil
	ce, ok := f.entries[num]
	if !ok || ce.kind != 1 {
		return nil
	}
	c, ok := sIndirect(d, ce.f2, getLen)
	if !ok || !c.isStream || c.num != num || c.gen != 0 {
		return nil
	}
	dict := c.val.(Dict)
	if dict["Type"] != Name("ObjStm") {
		return nil
	}
	N, ok1 := dict["N"].(Integer)
	first, ok2 := dict["First"].(Integer)
	if !ok1 || !ok2 || N < 0 {
		return nil
	}
	body := c.data
	if dict["Filter"] != nil {
		var ok bool
		body, ok = sInflate(c.data)
		if !ok {
			return nil
		}
	}
	if int(first) > len(body) || first < 0 {
		return nil
	}
	res := &sContainer{body: body, first: int64(first)}
	h := &sParser{d: body[:first]}
	prevOff := int64(-1)
	for i := int64(0); i < int64(N); i++ {
		h.ws()
		num, _, okn := h.uint(10)
		h.ws()
		off, _, oko := h.uint(10)
		if !okn || !oko || off <= prevOff {
			return nil // offsets strictly increasing
		}
		if i > 0 {
			// each member starts right after the white space that ends
			// its predecessor
			at := int(first) + int(off)
			if at > len(body) || at == 0 || !sIsWS(body[at-1]) || (at < len(body) && sIsWS(body[at])) {
				return nil
			}
		} else if off != 0 {
			return nil
		}
		prevOff = off
		res.nums = append(res.nums, num)
		res.offs = append(res.offs, off)
	}
	h.ws()
	if h.p != len(h.d) {
		return nil // surplus bytes in the offset table
	}
	f.containers[num] = res
	return res
}

func (f *sFile) get(d []byte, n int64) (val Object, stm *sObject, ok bool) {
	e, present := f.entries[n]
	if !present {
		return nil, nil, false
	}
	getLen := func(r Reference) (int64, bool) {
		le, ok := f.entries[int64(r.Number())]
		if !ok || le.kind != 1 {
			return 0, false
		}
		lo, ok := sIndirect(d, le.f2, func(Reference) (int64, bool) { return 0, false })
		if !ok || lo.num != int64(r.Number()) {
			return 0, false
		}
		v, isInt := lo.val.(Integer)
		return int64(v), isInt
	}
	switch e.kind {
	case 0:
		return nil, nil, true
	case 1:
		o, ok := sIndirect(d, e.f2, getLen)
		if !ok || o.num != n || o.gen != e.f3 {
			return nil, nil, false
		}
		if o.isStream {
			return o.val, o, true
		}
		return o.val, nil, true
	default:
		c := f.container(d, e.f2, getLen)
		if c == nil || e.f3 < 0 || e.f3 >= int64(len(c.nums)) || c.nums[e.f3] != n {
			return nil, nil, false
		}
		body, first, myOff := c.body, c.first, c.offs[e.f3]
		m := &sParser{d: body, p: int(first) + int(myOff)}
		v := m.value(0)
		if m.bad {
			return nil, nil, false
		}
		if _, isRef := v.(Reference); isRef {
			return nil, nil, false
		}
		return v, nil, true
	}
}

// verifStrictCheck validates a produced document with the strict reader.
func verifStrictCheck(doc *verifDoc) {
	d := doc.file
	f := sReadXRef(d)
	verifrt.Assert(f.ok, "cross-reference data is well formed and startxref points at it")
	if !f.ok {
		return
	}
	verifrt.Cover("xref read")
	// one entry for every number below /Size, none above
	complete := true
	for n := int64(0); n < f.size; n++ {
		if _, ok := f.entries[n]; !ok {
			complete = false
		}
	}
	for n := range f.entries {
		if n >= f.size {
			complete = false
		}
	}
	verifrt.Assert(complete, "exactly one entry for every object number below /Size")
	e0 := f.entries[0]
	verifrt.Assert(e0.kind == 0, "object 0 is free")
	if doc.version < V1_5 || doc.human {
		verifrt.Assert(e0.f3 == 65535, "free-list head has generation 65535")
	}
	for _, e := range doc.objs {
		v, stm, ok := f.get(d, int64(e.ref.Number()))
		verifrt.Assert(ok && stm == nil, "entry points exactly at the object header")
		verifrt.Assert(verifEqual(e.obj, v), "strict reader extracts the written value")
	}
	for _, ref := range doc.unwritten {
		e, ok := f.entries[int64(ref.Number())]
		verifrt.Assert(ok && e.kind == 0, "never-written number has a free entry")
	}
	for _, e := range doc.stms {
		_, stm, ok := f.get(d, int64(e.ref.Number()))
		verifrt.Assert(ok && stm != nil, "stream /Length equals the bytes before endstream")
	}
	for _, ref := range doc.compressed {
		e := f.entries[int64(ref.Number())]
		if doc.version >= V1_5 && !doc.human {
			verifrt.Assert(e.kind == 2, "object stream member has a type 2 entry")
		} else {
			verifrt.Assert(e.kind == 1, "without object streams the objects are written directly")
		}
	}
	// every in-use entry of the file (catalog, info, object streams, xref
	// stream, length objects) is well formed too
	for n, e := range f.entries {
		if e.kind == 0 {
			continue
		}
		_, _, ok := f.get(d, n)
		verifrt.Assert(ok, "every in-use entry resolves")
	}
	root, isRef := f.trailer["Root"].(Reference)
	verifrt.Assert(isRef, "trailer has /Root")
	if isRef {
		cat, _, ok := f.get(d, int64(root.Number()))
		cd, isDict := cat.(Dict)
		verifrt.Assert(ok && isDict && cd["Pages"] == doc.pagesRef, "catalog read strictly")
	}
}

// Verif_C03_strict: the producer's files judged by the strict reader.
func Verif_C03_strict() {
	p := verifProfile{ops: 2 + verifrt.Tier(), versions: 9, streams: true, compressed: true, symbolic: true}
	doc := verifProduce(p)
	if doc == nil {
		return
	}
	verifStrictCheck(doc)
}

// Verif_C03_many_objects: one WriteCompressed call (and, alternatively, a
// run of Puts) with n objects for every n up to 260 (beyond the one-byte
// limit of the index and object number fields of a cross-reference stream),
// judged by the strict reader.
func Verif_C03_many_objects() {
	defer verifFixRand()()
	verifrt.Unwind(40000)
	doc := &verifDoc{}
	c := []verifConfig{{V1_7, false, false}, {V2_0, false, true}, {V1_4, false, false}, {V1_7, true, true}}[verifrt.Choice("config", 2+2*verifrt.Tier())]
	doc.version, doc.human, doc.seekable = c.v, c.human, c.seekable
	sb := &verifSeekBuf{}
	w, err := NewWriter(sb, doc.version, &WriterOptions{HumanReadable: doc.human})
	verifrt.Assert(err == nil, "NewWriter succeeds")
	if err != nil {
		return
	}
	n := verifrt.Len("n", 1, 260)
	refs := make([]Reference, n)
	objs := make([]Object, n)
	for i := range refs {
		refs[i] = w.Alloc()
		objs[i] = Integer(1000 + i)
		doc.objs = append(doc.objs, verifExpObj{refs[i], objs[i]})
	}
	if verifrt.Choice("how", 2) == 0 {
		verifrt.Assert(w.WriteCompressed(refs, objs...) == nil, "WriteCompressed succeeds")
		doc.compressed = refs
	} else {
		for i := range refs {
			verifrt.Assert(w.Put(refs[i], objs[i]) == nil, "Put succeeds")
		}
	}
	doc.pagesRef = w.Alloc()
	w.GetMeta().Catalog.Pages = doc.pagesRef
	verifrt.Assert(w.Close() == nil, "Close succeeds")
	doc.file = sb.b
	verifStrictCheck(doc)
	if verifrt.Tier() == 0 {
		return
	}
	// and the library's own reader agrees
	r, err := NewReader(bytes.NewReader(doc.file), int64(len(doc.file)), nil)
	verifrt.Assert(err == nil, "file opens")
	if err != nil {
		return
	}
	all := true
	for i := range refs {
		v, err := r.Get(refs[i], true)
		if err != nil || v != objs[i] {
			all = false
		}
	}
	verifrt.Assert(all, "every object reads back")
}

// Verif_C03_xref_stream_fields: the cross-reference stream written for
// arbitrary entries.  Three entries of the Writer's table are replaced before
// Close by an in-use entry with a symbolic offset (< 2^40) and generation, an
// object-stream member with a symbolic container number and index, and a free
// entry with a symbolic generation; the strict reader must decode exactly
// these values from the file (field widths /W chosen by the writer must hold
// every value, including the position of the cross-reference stream itself).
func Verif_C03_xref_stream_fields() {
	defer verifFixRand()()
	sb := &verifSeekBuf{}
	w, err := NewWriter(sb, V1_7, &WriterOptions{ID: [][]byte{[]byte("0123456789abcdef"), []byte("0123456789abcdef")}})
	verifrt.Assert(err == nil, "NewWriter succeeds")
	if err != nil {
		return
	}
	// optional filler so that the cross-reference stream lies beyond 256
	// bytes (thorough: beyond 65536)
	fill := []int{0, 200, 66000}[verifrt.Choice("fill", 2+verifrt.Tier())]
	if fill > 0 {
		verifrt.Unwind(200000)
		verifrt.Assert(w.Put(w.Alloc(), String(make([]byte, fill))) == nil, "Put succeeds")
	}
	r1, r2, r3 := w.Alloc(), w.Alloc(), w.Alloc()
	// one of the three entries is symbolic per run
	which := verifrt.Choice("entry", 3)
	pos, gen := int64(17), uint16(0)
	container, idx := uint32(5), int64(1)
	freeGen := uint16(1)
	switch which {
	case 0:
		pos = verifrt.Int64("pos")
		verifrt.Assume(pos >= 0 && pos < 1<<40)
		gen = verifrt.Uint16("gen")
	case 1:
		container = verifrt.Uint32("container")
		verifrt.Assume(container > 0 && container < 1<<23)
		idx = verifrt.Int64("index")
		verifrt.Assume(idx >= 0 && idx < 1<<31)
	default:
		freeGen = verifrt.Uint16("freegen")
		verifrt.Assume(freeGen != 65535)
	}
	w.xref[r1.Number()] = &xRefEntry{Pos: pos, Generation: gen}
	w.xref[r2.Number()] = &xRefEntry{InStream: NewReference(container, 0), Pos: idx}
	w.xref[r3.Number()] = &xRefEntry{Pos: -1, Generation: freeGen}
	w.GetMeta().Catalog.Pages = w.Alloc()
	verifrt.Assert(w.Close() == nil, "Close succeeds")
	f := sReadXRef(sb.b)
	verifrt.Assert(f.ok, "cross-reference stream is well formed")
	if !f.ok {
		return
	}
	verifrt.Cover("decoded")
	e1, e2, e3 := f.entries[int64(r1.Number())], f.entries[int64(r2.Number())], f.entries[int64(r3.Number())]
	verifrt.Assert(e1.kind == 1 && e1.f2 == pos && e1.f3 == int64(gen), "in-use entry holds the offset and generation")
	verifrt.Assert(e2.kind == 2 && e2.f2 == int64(container) && e2.f3 == idx, "compressed entry holds the container number and index")
	verifrt.Assert(e3.kind == 0 && e3.f3 == int64(freeGen), "free entry holds the generation")
	// every in-use entry written by the library itself (catalog, info, the
	// cross-reference stream if listed) points at its object header
	for n, e := range f.entries {
		if e.kind != 1 || n == int64(r1.Number()) {
			continue
		}
		_, _, ok := f.get(sb.b, n)
		verifrt.Assert(ok, "every in-use entry written by the library resolves")
	}
}

// Verif_C03_xref_table_fields: the classic cross-reference table written for
// an in-use entry with a symbolic offset (< 10^10) and generation and a free
// entry with a symbolic generation: the strict reader, which insists on
// 20-byte lines with 10- and 5-digit fields, decodes exactly these values.
func Verif_C03_xref_table_fields() {
	sb := &verifSeekBuf{}
	v := []Version{V1_4, V1_7}[verifrt.Choice("version", 2)]
	w, err := NewWriter(sb, v, &WriterOptions{HumanReadable: v == V1_7, ID: [][]byte{[]byte("0123456789abcdef"), []byte("0123456789abcdef")}})
	verifrt.Assert(err == nil, "NewWriter succeeds")
	if err != nil {
		return
	}
	r1, r3 := w.Alloc(), w.Alloc()
	pos := verifrt.Int64("pos")
	verifrt.Assume(pos >= 0 && pos < 10000000000)
	gen := verifrt.Uint16("gen")
	w.xref[r1.Number()] = &xRefEntry{Pos: pos, Generation: gen}
	_ = r3 // allocated, never written: a free entry
	w.GetMeta().Catalog.Pages = w.Alloc()
	verifrt.Assert(w.Close() == nil, "Close succeeds")
	f := sReadXRef(sb.b)
	verifrt.Assert(f.ok, "cross-reference table is well formed (20-byte lines)")
	if !f.ok {
		return
	}
	verifrt.Cover("decoded")
	e1, e3 := f.entries[int64(r1.Number())], f.entries[int64(r3.Number())]
	verifrt.Assert(e1.kind == 1 && e1.f2 == pos && e1.f3 == int64(gen), "in-use entry holds the offset and generation")
	verifrt.Assert(e3.kind == 0, "a never-written number has a free entry")
}
