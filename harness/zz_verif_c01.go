//go:build verif

package pdf

import (
	"bytes"
	"io"
	"math"

	"seehuhn.de/go/pdf/internal/verifrt"
)

// verifEqual is structural equality with the conventions of the property:
// a nil dictionary entry counts as absent, nil arrays/dicts as null, strings
// are compared by content (String(nil) and String{} are both "()").
func verifEqual(a, b Object) bool {
	if a == nil || b == nil {
		return verifIsNull(a) && verifIsNull(b)
	}
	switch x := a.(type) {
	case Boolean:
		y, ok := b.(Boolean)
		return ok && x == y
	case Integer:
		y, ok := b.(Integer)
		return ok && x == y
	case Real:
		y, ok := b.(Real)
		return ok && x == y
	case Name:
		y, ok := b.(Name)
		return ok && x == y
	case String:
		y, ok := b.(String)
		return ok && verifrt.Equal(x, y)
	case Reference:
		y, ok := b.(Reference)
		return ok && x == y
	case Array:
		if x == nil {
			return verifIsNull(b)
		}
		y, ok := b.(Array)
		if !ok || y == nil || len(x) != len(y) {
			return false
		}
		for i := range x {
			if !verifEqual(x[i], y[i]) {
				return false
			}
		}
		return true
	case Dict:
		if x == nil {
			return verifIsNull(b)
		}
		y, ok := b.(Dict)
		if !ok || y == nil {
			return false
		}
		for k, v := range x {
			if v == nil {
				continue
			}
			w, present := y[k]
			if !present || !verifEqual(v, w) {
				return false
			}
		}
		for k, w := range y {
			if w == nil {
				continue
			}
			if v, present := x[k]; !present || v == nil {
				return false
			}
		}
		return true
	}
	return false
}

func verifIsNull(a Object) bool {
	switch x := a.(type) {
	case nil:
		return true
	case Array:
		return x == nil
	case Dict:
		return x == nil
	}
	return false
}

func verifOpt() OutputOptions {
	var opt OutputOptions
	if verifrt.Choice("pretty", 2) == 1 {
		opt |= OptPretty
	}
	return opt
}

// verifParseOne parses exactly one object from buf and requires that all of
// buf is consumed (trailing white space allowed).
//
// The text is delivered to the scanner either in one piece or in short reads
// of 1 or 2 bytes (io.Reader allows them): with short reads the end of the
// buffered window falls inside every multi-byte construct.
func verifParseOne(buf []byte) (Native, bool) {
	return verifParseFrom(&verifrt.ChunkReader{Data: buf, Chunk: verifrt.Choice("chunk", 3), EOF: io.EOF})
}

func verifParseFrom(r io.Reader) (Native, bool) {
	return verifParseRest(newScanner(r, nil, nil))
}

func verifParseRest(s *scanner) (Native, bool) {
	obj, err := s.ReadObject()
	if err != nil {
		return nil, false
	}
	if err := s.SkipWhiteSpace(); err != nil && err.Error() != "EOF" {
		return nil, false
	}
	rest, _ := s.PeekN(1)
	return obj, len(rest) == 0
}

func verifStrLen() int {
	if verifrt.Tier() > 0 {
		return 4
	}
	return 3
}

// Verif_C01_name: every name of up to n arbitrary bytes round-trips.
func Verif_C01_name() {
	n := verifrt.Len("n", 0, verifStrLen())
	name := Name(verifrt.String("name", n))
	var buf bytes.Buffer
	err := Format(&buf, verifOpt(), name)
	verifrt.Assert(err == nil, "format succeeds")
	got, ok := verifParseOne(buf.Bytes())
	verifrt.Cover("parsed")
	verifrt.Assert(ok, "output parses as exactly one object")
	g, isName := got.(Name)
	verifrt.Assert(isName, "parsed value is a name")
	verifrt.Assert(g == name, "name round trip")
}

// Verif_C01_string: every string of up to n arbitrary bytes round-trips,
// plain and pretty (hex fallback).
func Verif_C01_string() {
	n := verifrt.Len("n", 0, verifStrLen())
	str := String(verifrt.Bytes("str", n))
	var buf bytes.Buffer
	err := Format(&buf, verifOpt(), str)
	verifrt.Assert(err == nil, "format succeeds")
	got, ok := verifParseOne(buf.Bytes())
	verifrt.Cover("parsed")
	verifrt.Assert(ok, "output parses as exactly one object")
	g, isString := got.(String)
	verifrt.Assert(isString, "parsed value is a string")
	verifrt.Assert(verifrt.Equal(g, str), "string round trip")
}

// Verif_C01_integer: every int64 round-trips.
func Verif_C01_integer() {
	x := Integer(verifrt.Int64("x"))
	var buf bytes.Buffer
	err := Format(&buf, verifOpt(), x)
	verifrt.Assert(err == nil, "format succeeds")
	got, ok := verifParseOne(buf.Bytes())
	verifrt.Cover("parsed")
	verifrt.Assert(ok, "output parses as exactly one object")
	g, isInt := got.(Integer)
	verifrt.Assert(isInt, "parsed value is an integer")
	verifrt.Assert(g == x, "integer round trip")
}

var verifReals = []Real{0, 1, -1, 0.1, -0.5, 1e-7, 1e21, 5e-324, 1.7976931348623157e308, 123456789.125, 9.3e18, -9.3e18, 0.000001}

// Verif_C01_real: finite reals from a boundary list (float formatting is
// not encodable; the values are concrete).
func Verif_C01_real() {
	x := verifReals[verifrt.Choice("real", len(verifReals))]
	var buf bytes.Buffer
	err := Format(&buf, verifOpt(), x)
	verifrt.Assert(err == nil, "format succeeds")
	got, ok := verifParseOne(buf.Bytes())
	verifrt.Cover("parsed")
	verifrt.Assert(ok, "output parses as exactly one object")
	verifrt.Assert(verifEqual(x, got), "real round trip")
}

// Verif_C01_reference: every reference (number < 2^24 here) round-trips
// inside an array.
func Verif_C01_reference() {
	num := verifrt.Uint32("refnum")
	gen := verifrt.Uint16("refgen")
	verifrt.Assume(num < 1<<24)
	arr := Array{NewReference(num, gen)}
	var buf bytes.Buffer
	err := Format(&buf, verifOpt(), arr)
	verifrt.Assert(err == nil, "format succeeds")
	got, ok := verifParseOne(buf.Bytes())
	verifrt.Cover("parsed")
	verifrt.Assert(ok, "output parses as exactly one object")
	verifrt.Assert(verifEqual(arr, got), "reference round trip")
}

// verifToken builds one object of a solver-chosen kind.  Payloads are small
// (the single-token harnesses cover the full payload ranges); what matters
// here is every kind next to every other kind.
func verifToken(depth int) Object {
	kinds := 10
	if depth <= 0 {
		kinds = 8
	}
	switch verifrt.Choice("kind", kinds) {
	case 0:
		return nil
	case 1:
		return Boolean(verifrt.Bool("b"))
	case 2:
		return Integer(verifrt.IntRange("i", -9, 99))
	case 3:
		return verifReals[verifrt.Choice("real", 5)]
	case 4:
		return Name(verifrt.String("nm", verifrt.Len("nmlen", 0, 1)))
	case 5:
		return String(verifrt.Bytes("st", verifrt.Len("stlen", 0, 1)))
	case 6:
		num := verifrt.IntRange("refnum", 0, 99)
		gen := verifrt.IntRange("refgen", 0, 9)
		return NewReference(uint32(num), uint16(gen))
	case 7:
		if verifrt.Bool("emptyarr") {
			return Array{}
		}
		return Dict{}
	case 8:
		return Array{verifToken(depth - 1)}
	default:
		return Dict{Name(verifrt.String("key", verifrt.Len("keylen", 0, 1))): verifToken(depth - 1)}
	}
}

// Verif_C01_sequence: k adjacent values formatted by one call remain
// separately parseable, in order (inside an array, where the reader detects
// references).
func Verif_C01_sequence() {
	k := 2
	depth := verifrt.Tier() // nested composites next to each other: thorough tier
	arr := make(Array, k)
	for i := range arr {
		arr[i] = verifToken(depth)
	}
	opt := verifOpt()
	var buf bytes.Buffer
	err := Format(&buf, opt, arr)
	verifrt.Assert(err == nil, "format succeeds")
	got, ok := verifParseOne(buf.Bytes())
	verifrt.Cover("parsed")
	verifrt.Assert(ok, "output parses as exactly one object")
	verifrt.Assert(verifEqual(arr, got), "sequence round trip")
	// determinism
	var buf2 bytes.Buffer
	Format(&buf2, opt, arr)
	verifrt.Assert(bytes.Equal(buf.Bytes(), buf2.Bytes()), "formatting is deterministic")
}

// Verif_C01_dict: dictionary with two symbolic keys and token values.
func Verif_C01_dict() {
	k1 := Name(verifrt.String("k1", verifrt.Len("k1len", 0, 1)))
	k2 := Name("K")
	if verifrt.Tier() > 0 {
		verifrt.MapOrderAll()
		k2 = Name(verifrt.String("k2", verifrt.Len("k2len", 0, 1)))
	}
	d := Dict{}
	d[k1] = verifToken(0)
	if verifrt.Tier() > 0 {
		d[k2] = verifToken(0)
	} else {
		d[k2] = Integer(verifrt.IntRange("v2", -9, 99))
	}
	opt := verifOpt()
	var buf bytes.Buffer
	err := Format(&buf, opt, d)
	verifrt.Assert(err == nil, "format succeeds")
	got, ok := verifParseOne(buf.Bytes())
	verifrt.Cover("parsed")
	verifrt.Assert(ok, "output parses as exactly one object")
	verifrt.Assert(verifEqual(d, got), "dict round trip")
	var buf2 bytes.Buffer
	Format(&buf2, opt, d)
	verifrt.Assert(bytes.Equal(buf.Bytes(), buf2.Bytes()), "formatting is deterministic")
}

// verifWindowToken: tokens whose representation spans several bytes.
func verifWindowToken() Object {
	switch verifrt.Choice("wkind", 6) {
	case 0:
		return Name(verifrt.String("nm", 2))
	case 1:
		return String(verifrt.Bytes("st", 2))
	case 2:
		return Integer(verifrt.IntRange("i", -1000, 1000))
	case 3:
		return verifReals[verifrt.Choice("real", len(verifReals))]
	case 4:
		return NewReference(uint32(verifrt.IntRange("refnum", 0, 999)), uint16(verifrt.IntRange("refgen", 0, 99)))
	default:
		return Dict{Name(verifrt.String("key", 1)): Boolean(verifrt.Bool("b"))}
	}
}

// Verif_C01_window_position: the result of parsing does not depend on where
// the text sits relative to the scanner's refill boundary: the formatted
// value is preceded by white space so that byte j of it is the first byte
// beyond the first window, for every j.
func Verif_C01_window_position() {
	arr := Array{verifWindowToken(), verifWindowToken()}
	if verifrt.Tier() == 0 {
		arr = arr[:1]
	}
	opt := verifOpt()
	var buf bytes.Buffer
	err := Format(&buf, opt, arr)
	verifrt.Assert(err == nil, "format succeeds")
	j := verifrt.Len("j", 0, buf.Len())
	text := make([]byte, scannerBufSize-j, scannerBufSize+buf.Len())
	for i := range text {
		text[i] = ' '
	}
	text = append(text, buf.Bytes()...)
	sc := newScanner(bytes.NewReader(text), nil, nil)
	verifrt.Assert(sc.SkipWhiteSpace() == nil, "white space is skipped")
	got, ok := verifParseRest(sc)
	verifrt.Cover("parsed")
	verifrt.Assert(ok, "output parses as exactly one object")
	verifrt.Assert(verifEqual(arr, got), "round trip at any window position")
}

// Verif_C01_real_binary_grid: every power of two of the float64 range and
// its neighbours (mantissa all zeros / all ones; thorough: also 1 and the
// half-way pattern), both signs, incl. subnormals.  The values are concrete
// per path (float formatting is not encodable): a solver-enumerated grid of
// 8k/16k values around every binary exponent, where integer conversions and
// digit-count decisions change.
func Verif_C01_real_binary_grid() {
	exp := uint64(verifrt.Len("exp", 0, 2046))
	mants := []uint64{0, 1<<52 - 1, 1, 1 << 51}
	mant := mants[verifrt.Choice("mant", 2+2*verifrt.Tier())]
	sign := uint64(verifrt.Choice("sign", 2))
	x := Real(math.Float64frombits(sign<<63 | exp<<52 | mant))
	var buf bytes.Buffer
	err := Format(&buf, 0, x)
	verifrt.Assert(err == nil, "format succeeds")
	got, ok := verifParseFrom(bytes.NewReader(buf.Bytes()))
	verifrt.Cover("parsed")
	verifrt.Assert(ok, "output parses as exactly one object")
	verifrt.Assert(verifEqual(x, got), "real round trip")
}

// Verif_C01_real_rationals: reals with full-precision decimal expansions
// (p/q for small p and q, optionally scaled), concrete per path.
func Verif_C01_real_rationals() {
	qs := []float64{3, 7, 9, 11, 13, 17, 19, 23, 29, 31}
	p := float64(1 + verifrt.Len("p", 0, 39))
	v := p / qs[verifrt.Choice("q", len(qs))]
	if verifrt.Choice("scaled", 2) == 1 {
		v *= 61.5
	}
	if verifrt.Choice("negative", 2) == 1 {
		v = -v
	}
	x := Real(v)
	var buf bytes.Buffer
	err := Format(&buf, 0, x)
	verifrt.Assert(err == nil, "format succeeds")
	got, ok := verifParseFrom(bytes.NewReader(buf.Bytes()))
	verifrt.Cover("parsed")
	verifrt.Assert(ok, "output parses as exactly one object")
	verifrt.Assert(verifEqual(x, got), "real round trip")
}

// Verif_C01_integer_boundaries: the extreme and power-of-two integers as
// concrete values (Verif_C01_integer decides all int64 symbolically; this
// harness keeps the boundary cases decided even if a changed parser makes
// the symbolic queries too hard for the solver).
func Verif_C01_integer_boundaries() {
	vals := []int64{0, 1, -1, 9, 10, -10, 99, 100, 1<<31 - 1, 1 << 31, -1 << 31, 1<<32 - 1, 1 << 32, 1<<53 - 1, 1 << 53, 1<<53 + 1,
		999999999999999999, 1000000000000000000, math.MaxInt64 - 1, math.MaxInt64, math.MinInt64, math.MinInt64 + 1, -999999999999999999, -1000000000000000000}
	x := Integer(vals[verifrt.Choice("value", len(vals))])
	var buf bytes.Buffer
	err := Format(&buf, verifOpt(), x)
	verifrt.Assert(err == nil, "format succeeds")
	got, ok := verifParseOne(buf.Bytes())
	verifrt.Cover("parsed")
	verifrt.Assert(ok, "output parses as exactly one object")
	g, isInt := got.(Integer)
	verifrt.Assert(isInt, "parsed value is an integer")
	verifrt.Assert(g == x, "integer round trip")
}
