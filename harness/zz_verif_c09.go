//go:build verif

package pdf

import (
	"strings"
	"bytes"
	"crypto/aes"
	"crypto/cipher"
	"crypto/md5"
	"crypto/rc4"
	"crypto/sha256"
	"crypto/sha512"
	"encoding/binary"
	"errors"
	"io"

	"seehuhn.de/go/pdf/internal/verifrt"
)

// Verif_C09_permission_algebra: for every permission set and every revision,
// what user access reports is the requested set closed under the documented
// implications (Print => PrintDegraded, Annotate => Forms, Modify =>
// Assemble); canR2 characterises the sets revision 2 can represent.
func Verif_C09_permission_algebra() {
	bits := verifrt.Byte("perm")
	verifrt.Assume(bits < 128)
	p := Perm(bits)
	closure := p
	if p&PermPrint != 0 {
		closure |= PermPrintDegraded
	}
	if p&PermAnnotate != 0 {
		closure |= PermForms
	}
	if p&PermModify != 0 {
		closure |= PermAssemble
	}
	P := stdSecPermToP(p)
	verifrt.Assert(P&3 == 0, "reserved low bits are zero")
	for _, R := range []int{3, 4, 6} {
		verifrt.Assert(stdSecPToPerm(R, P) == closure, "user access reports the closure of the requested permissions")
	}
	if p.canR2() {
		verifrt.Assert(stdSecPToPerm(2, P) == closure, "revision 2 reports the closure when the set is representable")
	} else {
		// revision 2 cannot express "degraded printing only", "forms only"
		// or "assembly only": these are exactly the sets canR2 rejects
		verifrt.Assert((p&PermPrint == 0 && p&PermPrintDegraded != 0) || (p&PermAnnotate == 0 && p&PermForms != 0) || (p&PermModify == 0 && p&PermAssemble != 0), "canR2 rejects only sets revision 2 cannot represent")
	}
	verifrt.Cover("algebra")
}

// Verif_C09_pkcs7: unpadPKCS7 accepts exactly the well-formed paddings.
func Verif_C09_pkcs7() {
	blocks := 1 + verifrt.Choice("blocks", 2)
	buf := verifrt.Bytes("buf", 16*blocks)
	orig := append([]byte{}, buf...)
	out, err := unpadPKCS7(buf)
	n := len(orig)
	pad := int(orig[n-1])
	well := pad >= 1 && pad <= 16
	if well {
		for i := 0; i < 16; i++ {
			if i < pad && orig[n-1-i] != orig[n-1] {
				well = false
			}
		}
	}
	verifrt.Cover("unpadded")
	if well {
		verifrt.Assert(err == nil && len(out) == n-pad && verifrt.Equal(out, orig[:n-pad]), "well-formed padding is removed")
	} else {
		verifrt.Assert(err != nil, "malformed padding is rejected")
	}
}

var verifPasswords = []string{"", "u", "owner", "0123456789012345678901234567890", "01234567890123456789012345678901", "012345678901234567890123456789012", "pässwörd"}

// verifLongA is 126 bytes long: one more two-byte character straddles the
// 127-byte limit of revision 6 passwords.
var verifLongA = strings.Repeat("a", 126)

var verifPasswordPairs = [][2]string{
	{"", "o"}, {"u", ""}, {"u", "owner"},
	{verifLongA + "é", "o"},
	{"u", verifLongA + "éx"},
	{"01234567890123456789012345678901", "o"},
	{"012345678901234567890123456789012", "pässwörd"},
	{"pässwörd", "u"},
}

type verifEncDoc struct {
	file     []byte
	v        Version
	upw, opw string
	perm     Perm
	strRef   Reference
	stmRef   Reference
	secret   []byte
	w        *Writer
}

// verifWriteEncrypted writes a small encrypted document; the secret goes
// into a string (inside a dictionary inside an array) and into a stream.
func verifWriteEncrypted(secret []byte) *verifEncDoc {
	d := &verifEncDoc{secret: secret}
	if verifrt.Tier() > 0 {
		d.v = verifVersions[1+verifrt.Choice("version", 8)]
		d.upw = verifPasswords[verifrt.Choice("userpw", len(verifPasswords))]
		d.opw = verifPasswords[verifrt.Choice("ownerpw", len(verifPasswords))]
		verifrt.Assume(d.upw != "" || d.opw != "")
		d.perm = Perm(verifrt.Choice("perm", 4) * 37 & 127)
	} else {
		// quick tier: one version per cipher/revision, six password pairs
		d.v = []Version{V1_1, V1_4, V1_6, V2_0}[verifrt.Choice("version", 4)]
		pair := verifPasswordPairs[verifrt.Choice("passwords", len(verifPasswordPairs))]
		d.upw, d.opw = pair[0], pair[1]
		d.perm = Perm(verifrt.Choice("perm", 2) * 37 & 127)
	}
	var buf bytes.Buffer
	w, err := NewWriter(&buf, d.v, &WriterOptions{
		ID:           [][]byte{[]byte("0123456789abcdef"), []byte("0123456789abcdef")},
		UserPassword: d.upw, OwnerPassword: d.opw, UserPermissions: d.perm,
	})
	verifrt.Assert(err == nil, "NewWriter with passwords succeeds")
	if err != nil {
		return nil
	}
	d.w = w
	d.strRef = w.Alloc()
	verifrt.Assert(w.Put(d.strRef, Array{Integer(1), Dict{"S": String(append([]byte{}, secret...))}}) == nil, "Put succeeds")
	d.stmRef = w.Alloc()
	ws, err := w.OpenStream(d.stmRef, Dict{"T": String(append([]byte{}, secret...))})
	verifrt.Assert(err == nil, "OpenStream succeeds")
	ws.Write(secret)
	verifrt.Assert(ws.Close() == nil, "stream closes")
	if d.v >= V1_5 {
		cr := w.Alloc()
		verifrt.Assert(w.WriteCompressed([]Reference{cr}, Dict{"C": String(append([]byte{}, secret...))}) == nil, "WriteCompressed succeeds")
	}
	w.GetMeta().Catalog.Pages = w.Alloc()
	verifrt.Assert(w.Close() == nil, "Close succeeds")
	d.file = buf.Bytes()
	return d
}

func verifReadSecret(d *verifEncDoc, pw string) (strOK, stmOK bool, perm Perm, err error) {
	r, err := NewReader(bytes.NewReader(d.file), int64(len(d.file)), &ReaderOptions{Password: pw})
	if err != nil {
		return false, false, 0, err
	}
	perm = r.GetMeta().Permissions
	obj, err := r.Get(d.strRef, true)
	if arr, ok := obj.(Array); ok && err == nil && len(arr) == 2 {
		if dd, ok := arr[1].(Dict); ok {
			s, _ := dd["S"].(String)
			strOK = bytes.Equal(s, d.secret)
		}
	}
	obj, err = r.Get(d.stmRef, true)
	if stm, ok := obj.(*Stream); ok && err == nil {
		t, _ := stm.Dict["T"].(String)
		rd, err2 := DecodeStream(r, nil, stm)
		if err2 == nil {
			data, rerr, _ := verifrt.ReadAll(rd, 256, 8)
			stmOK = rerr == io.EOF && bytes.Equal(data, d.secret) && bytes.Equal(t, d.secret)
		}
	}
	return strOK, stmOK, perm, nil
}

var verifSecrets = [][]byte{[]byte("sixteen bytes..!"), {0, '(', ')', '\\', 0xff}, {}, []byte("s"), []byte("fifteen bytes.."), []byte("seventeen bytes..")}

// Verif_C09_passwords: for every version (hence cipher and revision),
// password pair and permission sample, the user and the owner password
// recover every string and stream, an empty user password needs no password,
// and a different password is rejected with an AuthenticationError.
func Verif_C09_passwords() {
	defer verifFixRand()()
	secret := verifSecrets[verifrt.Choice("secret", 3+3*verifrt.Tier())]
	d := verifWriteEncrypted(secret)
	if d == nil {
		return
	}
	verifrt.Cover("encrypted file written")
	opw := d.opw
	if opw == "" {
		opw = d.upw
	}
	// user password
	s1, s2, perm, err := verifReadSecret(d, d.upw)
	verifrt.Assert(err == nil && s1 && s2, "user password recovers strings and streams")
	if verifSignificant(d.v, d.upw) != verifSignificant(d.v, opw) {
		// (two passwords that agree in their significant prefix are the same
		// password: the user then has owner access)
		closure := d.perm
		if closure&PermPrint != 0 {
			closure |= PermPrintDegraded
		}
		if closure&PermAnnotate != 0 {
			closure |= PermForms
		}
		if closure&PermModify != 0 {
			closure |= PermAssemble
		}
		verifrt.Assert(perm == closure, "user access reports the requested permissions (closed)")
	}
	// owner password
	s1, s2, perm, err = verifReadSecret(d, opw)
	verifrt.Assert(err == nil && s1 && s2, "owner password recovers strings and streams")
	if d.upw != "" {
		verifrt.Assert(perm == PermAll, "owner access reports all permissions")
	}
	// no password at all
	_, _, _, err = verifReadSecret(d, "")
	if d.upw == "" {
		verifrt.Assert(err == nil, "an empty user password needs no password")
	} else {
		var ae *AuthenticationError
		verifrt.Assert(errors.As(err, &ae), "without the password opening fails with an AuthenticationError")
		_, _, _, err = verifReadSecret(d, "wrong")
		verifrt.Assert(errors.As(err, &ae), "a different password fails with an AuthenticationError")
	}
	// near misses: the last character dropped or replaced.  They are other
	// passwords unless the change lies beyond the significant prefix (32
	// bytes of PDFDocEncoding up to revision 4, 127 bytes of UTF-8 in
	// revision 6).
	for _, base := range []string{d.upw, opw} {
		if base == "" || d.upw == "" {
			continue // with an empty user password the file opens regardless
		}
		rs := []rune(base)
		for _, miss := range []string{string(rs[:len(rs)-1]), string(rs[:len(rs)-1]) + "Ā", string(rs[:len(rs)-1]) + "q"} {
			if verifSignificant(d.v, miss) == verifSignificant(d.v, d.upw) || verifSignificant(d.v, miss) == verifSignificant(d.v, opw) {
				continue
			}
			if d.v < V2_0 && strings.ContainsRune(miss, 'Ā') {
				continue // not representable in PDFDocEncoding
			}
			_, _, _, err = verifReadSecret(d, miss)
			var ae *AuthenticationError
			verifrt.Assert(errors.As(err, &ae), "a near-miss password fails with an AuthenticationError")
		}
	}
}

// verifSignificant is the part of a password that the standard security
// handler uses (the list entries are not changed by SASLprep).
func verifSignificant(v Version, pw string) string {
	if v >= V2_0 {
		if len(pw) > 127 {
			return pw[:127]
		}
		return pw
	}
	b := verifLatin1(pw)
	if len(b) > 32 {
		b = b[:32]
	}
	return string(b)
}

// ---------------------------------------------------------------------------
// C10: an independent implementation of the standard security handler,
// written from ISO 32000-2 7.6 (Algorithms 1, 1.A, 2, 2.A, 2.B, 3-7, 11-13).

var refPad = []byte{
	0x28, 0xBF, 0x4E, 0x5E, 0x4E, 0x75, 0x8A, 0x41, 0x64, 0x00, 0x4E, 0x56, 0xFF, 0xFA, 0x01, 0x08,
	0x2E, 0x2E, 0x00, 0xB6, 0xD0, 0x68, 0x3E, 0x80, 0x2F, 0x0C, 0xA9, 0xFE, 0x64, 0x53, 0x69, 0x7A,
}

type refSec struct {
	V, R, keyLen       int
	O, U, OE, UE, Perm []byte
	P                  int32
	ID                 []byte
	EncryptMetadata    bool
	AES                bool
}

func refPadPw(pw []byte) []byte {
	out := make([]byte, 32)
	n := copy(out, pw)
	copy(out[n:], refPad)
	return out
}

func (s *refSec) fileKey(pw []byte) []byte {
	h := md5.New()
	h.Write(refPadPw(pw))
	h.Write(s.O)
	var p [4]byte
	binary.LittleEndian.PutUint32(p[:], uint32(s.P))
	h.Write(p[:])
	h.Write(s.ID)
	if s.R >= 4 && !s.EncryptMetadata {
		h.Write([]byte{0xff, 0xff, 0xff, 0xff})
	}
	k := h.Sum(nil)
	if s.R >= 3 {
		for i := 0; i < 50; i++ {
			t := md5.Sum(k[:s.keyLen])
			k = t[:]
		}
	}
	return k[:s.keyLen]
}

func refRC4(key, data []byte) []byte {
	c, _ := rc4.NewCipher(key)
	out := make([]byte, len(data))
	c.XORKeyStream(out, data)
	return out
}

func (s *refSec) ownerRC4Key(opw []byte) []byte {
	t := md5.Sum(refPadPw(opw))
	k := t[:]
	if s.R >= 3 {
		for i := 0; i < 50; i++ {
			t := md5.Sum(k[:s.keyLen])
			k = t[:]
		}
	}
	return k[:s.keyLen]
}

func (s *refSec) computeU(fkey []byte) []byte {
	if s.R == 2 {
		return refRC4(fkey, refPad)
	}
	h := md5.New()
	h.Write(refPad)
	h.Write(s.ID)
	u := refRC4(fkey, h.Sum(nil))
	for i := 1; i <= 19; i++ {
		k2 := make([]byte, len(fkey))
		for j := range fkey {
			k2[j] = fkey[j] ^ byte(i)
		}
		u = refRC4(k2, u)
	}
	return u
}

func (s *refSec) authUser(pw []byte) ([]byte, bool) {
	k := s.fileKey(pw)
	u := s.computeU(k)
	if s.R == 2 {
		return k, bytes.Equal(u, s.U)
	}
	return k, len(s.U) >= 16 && bytes.Equal(u[:16], s.U[:16])
}

func (s *refSec) authOwner(pw []byte) ([]byte, bool) {
	key := s.ownerRC4Key(pw)
	var upw []byte
	if s.R == 2 {
		upw = refRC4(key, s.O)
	} else {
		upw = append([]byte{}, s.O...)
		for i := 19; i >= 0; i-- {
			k2 := make([]byte, len(key))
			for j := range key {
				k2[j] = key[j] ^ byte(i)
			}
			upw = refRC4(k2, upw)
		}
	}
	return s.authUser(upw[:32])
}

func refHash2B(pw, salt, udata []byte) []byte {
	h := sha256.New()
	h.Write(pw)
	h.Write(salt)
	h.Write(udata)
	K := h.Sum(nil)
	for round := 0; ; round++ {
		var k1 []byte
		for i := 0; i < 64; i++ {
			k1 = append(k1, pw...)
			k1 = append(k1, K...)
			k1 = append(k1, udata...)
		}
		blk, _ := aes.NewCipher(K[:16])
		E := make([]byte, len(k1))
		cipher.NewCBCEncrypter(blk, K[16:32]).CryptBlocks(E, k1)
		rem := 0
		for _, b := range E[:16] {
			rem = (rem*256 + int(b)) % 3
		}
		switch rem {
		case 0:
			t := sha256.Sum256(E)
			K = t[:]
		case 1:
			t := sha512.Sum384(E)
			K = t[:]
		case 2:
			t := sha512.Sum512(E)
			K = t[:]
		}
		if round >= 63 && int(E[len(E)-1]) <= (round+1)-32 {
			break
		}
	}
	return K[:32]
}

func (s *refSec) auth6(pw []byte) ([]byte, bool) {
	if len(pw) > 127 {
		pw = pw[:127]
	}
	if len(s.O) < 48 || len(s.U) < 48 {
		return nil, false
	}
	if bytes.Equal(refHash2B(pw, s.O[32:40], s.U[:48]), s.O[:32]) {
		k := refHash2B(pw, s.O[40:48], s.U[:48])
		blk, _ := aes.NewCipher(k)
		fk := make([]byte, 32)
		cipher.NewCBCDecrypter(blk, make([]byte, 16)).CryptBlocks(fk, s.OE)
		return fk, true
	}
	if bytes.Equal(refHash2B(pw, s.U[32:40], nil), s.U[:32]) {
		k := refHash2B(pw, s.U[40:48], nil)
		blk, _ := aes.NewCipher(k)
		fk := make([]byte, 32)
		cipher.NewCBCDecrypter(blk, make([]byte, 16)).CryptBlocks(fk, s.UE)
		return fk, true
	}
	return nil, false
}

func (s *refSec) checkPerms(fk []byte) bool {
	blk, _ := aes.NewCipher(fk)
	out := make([]byte, 16)
	blk.Decrypt(out, s.Perm)
	if string(out[9:12]) != "adb" {
		return false
	}
	return int32(binary.LittleEndian.Uint32(out[:4])) == s.P && out[8] == 'T'
}

func (s *refSec) objKey(fk []byte, num uint32, gen uint16) []byte {
	if s.R >= 5 {
		return fk
	}
	h := md5.New()
	h.Write(fk)
	h.Write([]byte{byte(num), byte(num >> 8), byte(num >> 16), byte(gen), byte(gen >> 8)})
	if s.AES {
		h.Write([]byte("sAlT"))
	}
	n := len(fk) + 5
	if n > 16 {
		n = 16
	}
	return h.Sum(nil)[:n]
}

func (s *refSec) decrypt(fk []byte, num uint32, gen uint16, data []byte) ([]byte, bool) {
	k := s.objKey(fk, num, gen)
	if !s.AES {
		return refRC4(k, data), true
	}
	if len(data) < 32 || len(data)%16 != 0 {
		return nil, false
	}
	blk, err := aes.NewCipher(k)
	if err != nil {
		return nil, false
	}
	out := make([]byte, len(data)-16)
	cipher.NewCBCDecrypter(blk, data[:16]).CryptBlocks(out, data[16:])
	pad := int(out[len(out)-1])
	if pad < 1 || pad > 16 {
		return nil, false
	}
	for _, b := range out[len(out)-pad:] {
		if int(b) != pad {
			return nil, false
		}
	}
	return out[:len(out)-pad], true
}

// refFromFile reads the Encrypt dictionary with the strict reader of C03.
func refFromFile(f *sFile, d []byte, id []byte) (*refSec, bool) {
	encRef, isRef := f.trailer["Encrypt"].(Reference)
	var enc Dict
	if isRef {
		v, _, ok := f.get(d, int64(encRef.Number()))
		if !ok {
			return nil, false
		}
		enc, _ = v.(Dict)
	} else {
		enc, _ = f.trailer["Encrypt"].(Dict)
	}
	if enc == nil || enc["Filter"] != Name("Standard") {
		return nil, false
	}
	s := &refSec{ID: id, EncryptMetadata: true}
	if b, ok := enc["EncryptMetadata"].(Boolean); ok && !bool(b) {
		s.EncryptMetadata = false
	}
	V, _ := enc["V"].(Integer)
	R, _ := enc["R"].(Integer)
	P, okP := enc["P"].(Integer)
	if !okP || P > 0x7fffffff || P < -0x80000000 {
		return nil, false // /P must be a signed 32-bit integer
	}
	s.V, s.R, s.P = int(V), int(R), int32(P)
	s.keyLen = 5
	if l, ok := enc["Length"].(Integer); ok {
		s.keyLen = int(l) / 8
	}
	s.O, _ = enc["O"].(String)
	s.U, _ = enc["U"].(String)
	s.OE, _ = enc["OE"].(String)
	s.UE, _ = enc["UE"].(String)
	s.Perm, _ = enc["Perms"].(String)
	if s.V >= 4 {
		cf, _ := enc["CF"].(Dict)
		std, _ := cf["StdCF"].(Dict)
		if enc["StmF"] != Name("StdCF") || enc["StrF"] != Name("StdCF") || std == nil {
			return nil, false
		}
		switch std["CFM"] {
		case Name("AESV2"):
			s.AES, s.keyLen = true, 16
		case Name("AESV3"):
			s.AES, s.keyLen = true, 32
		case Name("V2"):
		default:
			return nil, false
		}
	}
	return s, true
}

// Verif_C10_reference_decrypts: the independent handler authenticates with
// both passwords and decrypts the string and the stream of every encrypted
// file the library writes; the ciphertext does not contain the plaintext.
func Verif_C10_reference_decrypts() {
	defer verifFixRand()()
	secret := verifSecrets[verifrt.Choice("secret", 2+2*verifrt.Tier())]
	d := verifWriteEncrypted(secret)
	if d == nil {
		return
	}
	f := sReadXRef(d.file)
	verifrt.Assert(f.ok, "strict reader reads the cross-reference data")
	if !f.ok {
		return
	}
	s, ok := refFromFile(f, d.file, []byte("0123456789abcdef"))
	verifrt.Assert(ok, "Encrypt dictionary is well formed (Filter, V, R, signed 32-bit P, CF/StmF/StrF)")
	if !ok {
		return
	}
	verifrt.Cover("reference handler set up")
	opw := d.opw
	if opw == "" {
		opw = d.upw
	}
	var fk []byte
	if s.R >= 5 {
		k1, ok1 := s.auth6([]byte(d.upw))
		k2, ok2 := s.auth6([]byte(opw))
		verifrt.Assert(ok1 && ok2 && bytes.Equal(k1, k2), "reference authenticates both passwords (R6) to the same key")
		verifrt.Assert(s.checkPerms(k1), "/Perms decrypts to P, 'T'/'F' and 'adb'")
		fk = k1
	} else {
		upw8 := verifLatin1(d.upw)
		opw8 := verifLatin1(opw)
		k1, ok1 := s.authUser(upw8)
		k2, ok2 := s.authOwner(opw8)
		verifrt.Assert(ok1, "reference authenticates the user password")
		verifrt.Assert(ok2 && bytes.Equal(k1, k2), "reference authenticates the owner password to the same key")
		fk = k1
	}
	// the string of object strRef
	v, _, okv := f.get(d.file, int64(d.strRef.Number()))
	arr, _ := v.(Array)
	verifrt.Assert(okv && len(arr) == 2, "strict reader finds the string object")
	if len(arr) == 2 {
		dd, _ := arr[1].(Dict)
		ct, _ := dd["S"].(String)
		pt, okd := s.decrypt(fk, d.strRef.Number(), d.strRef.Generation(), ct)
		verifrt.Assert(okd && bytes.Equal(pt, secret), "reference decrypts the string with the per-object key")
		if len(secret) >= 4 {
			verifrt.Assert(!bytes.Contains(ct, secret), "the stored string is not the plaintext")
		}
	}
	_, stm, oks := f.get(d.file, int64(d.stmRef.Number()))
	verifrt.Assert(oks && stm != nil, "strict reader finds the stream")
	if stm != nil {
		pt, okd := s.decrypt(fk, d.stmRef.Number(), d.stmRef.Generation(), stm.data)
		verifrt.Assert(okd && bytes.Equal(pt, secret), "reference decrypts the stream with the per-object key")
		if len(secret) >= 4 {
			verifrt.Assert(!bytes.Contains(d.file, secret), "no plaintext copy of the secret in the file")
		}
		// AES: the IVs of the string and of the stream differ
		if s.AES && len(arr) == 2 {
			dd, _ := arr[1].(Dict)
			ct, _ := dd["S"].(String)
			if len(ct) >= 16 && len(stm.data) >= 16 {
				verifrt.Assert(!bytes.Equal(ct[:16], stm.data[:16]), "AES initialisation vectors are not reused")
			}
		}
	}
}

// verifLatin1 converts the password list entries to PDFDocEncoding (they
// only use characters below U+0100).
func verifLatin1(s string) []byte {
	var out []byte
	for _, r := range s {
		out = append(out, byte(r))
	}
	return out
}

// Verif_C10_object_keys: the per-object key of revisions 2-4 for an
// arbitrary reference (object number and generation are SMT variables; MD5
// is executed symbolically on both sides) equals the key of Algorithm 1.
func Verif_C10_object_keys() {
	num := verifrt.Uint32("num")
	gen := verifrt.Uint16("gen")
	verifrt.Assume(num < 1<<24)
	keyLen := []int{5, 16}[verifrt.Choice("keylen", 2)]
	aes := verifrt.Choice("aes", 2) == 1
	verifrt.Assume(!aes || keyLen == 16)
	key := []byte("0123456789abcdef")[:keyLen]
	R := 2
	if keyLen > 5 {
		R = 3 + verifrt.Choice("r4", 2)
	}
	sec := &stdSecHandler{R: R, key: key, keyBytes: keyLen}
	cf := &cryptFilter{Cipher: cipherRC4, Length: 8 * keyLen}
	if aes {
		sec.R = 4
		cf.Cipher = cipherAES
	}
	got, err := sec.KeyForRef(cf, NewReference(num, gen))
	verifrt.Assert(err == nil, "KeyForRef succeeds")
	want := (&refSec{R: sec.R, AES: aes}).objKey(key, num, gen)
	verifrt.Cover("keys computed")
	verifrt.Assert(verifrt.Equal(got, want), "per-object key is MD5(file key, 3 bytes of the number, 2 bytes of the generation[, sAlT])")
}

// Verif_C10_many_strings: k encrypted strings (k = 0..40, each drawing an
// initialisation vector under AES) precede a stream of more than 1024 bytes
// whose dictionary, written late, holds a string as well; the reference
// handler decrypts every string and the stream.
func Verif_C10_many_strings() {
	defer verifFixRand()()
	verifrt.Unwind(40000)
	v := []Version{V1_6, V2_0, V1_4}[verifrt.Choice("version", 2+verifrt.Tier())]
	k := verifrt.Len("k", 0, 40)
	var buf bytes.Buffer
	w, err := NewWriter(&buf, v, &WriterOptions{
		ID:           [][]byte{[]byte("0123456789abcdef"), []byte("0123456789abcdef")},
		UserPassword: "u", OwnerPassword: "owner",
	})
	verifrt.Assert(err == nil, "NewWriter with passwords succeeds")
	if err != nil {
		return
	}
	filler := []byte("filler string")
	refs := make([]Reference, k)
	for i := range refs {
		refs[i] = w.Alloc()
		verifrt.Assert(w.Put(refs[i], Dict{"S": String(append([]byte{}, filler...))}) == nil, "Put succeeds")
	}
	body := make([]byte, 1100)
	for i := range body {
		body[i] = byte(i*7 + i/256)
	}
	stmRef := w.Alloc()
	ws, err := w.OpenStream(stmRef, Dict{"T": String(append([]byte{}, filler...))})
	verifrt.Assert(err == nil, "OpenStream succeeds")
	ws.Write(body)
	verifrt.Assert(ws.Close() == nil, "stream closes")
	w.GetMeta().Catalog.Pages = w.Alloc()
	verifrt.Assert(w.Close() == nil, "Close succeeds")
	file := buf.Bytes()

	f := sReadXRef(file)
	verifrt.Assert(f.ok, "strict reader reads the cross-reference data")
	if !f.ok {
		return
	}
	s, ok := refFromFile(f, file, []byte("0123456789abcdef"))
	verifrt.Assert(ok, "Encrypt dictionary is well formed")
	if !ok {
		return
	}
	var fk []byte
	if s.R >= 5 {
		fk, ok = s.auth6([]byte("u"))
	} else {
		fk, ok = s.authUser([]byte("u"))
	}
	verifrt.Assert(ok, "reference authenticates the user password")
	verifrt.Cover("reference handler set up")
	all := true
	for _, ref := range refs {
		v, _, okv := f.get(file, int64(ref.Number()))
		dd, _ := v.(Dict)
		ct, _ := dd["S"].(String)
		pt, okd := s.decrypt(fk, ref.Number(), ref.Generation(), ct)
		if !okv || !okd || !bytes.Equal(pt, filler) {
			all = false
		}
	}
	verifrt.Assert(all, "reference decrypts every string")
	sv, stm, oks := f.get(file, int64(stmRef.Number()))
	verifrt.Assert(oks && stm != nil, "strict reader finds the stream")
	if stm != nil {
		pt, okd := s.decrypt(fk, stmRef.Number(), stmRef.Generation(), stm.data)
		verifrt.Assert(okd && bytes.Equal(pt, body), "reference decrypts the stream")
		dd, _ := sv.(Dict)
		ct, _ := dd["T"].(String)
		pt, okd = s.decrypt(fk, stmRef.Number(), stmRef.Generation(), ct)
		verifrt.Assert(okd && bytes.Equal(pt, filler), "reference decrypts the string in the stream dictionary")
	}
}

// Verif_C10_file_key: Algorithm 2 (file encryption key of revisions 2-4)
// against the reference, for every revision, both key lengths, encrypted and
// plaintext metadata.  /P is symbolic for revision 2 (one MD5, executed
// symbolically); revisions 3 and 4 add fifty more MD5 rounds and use a list of
// permission values.
func Verif_C10_file_key() {
	R := 2 + verifrt.Choice("revision", 3)
	keyLen := 5
	if R >= 3 && verifrt.Choice("longkey", 2) == 1 {
		keyLen = 16
	}
	plain := verifrt.Choice("plaintextmetadata", 2) == 1
	var P uint32
	if R == 2 {
		P = verifrt.Uint32("P")
	} else {
		P = []uint32{0xffffffff, 0xfffff0c0, 0xfffffffc, 0x00000000}[verifrt.Choice("P", 4)]
	}
	O := []byte("0123456789abcdefghijklmnopqrstuv")
	ID := []byte("0123456789abcdef")
	pw := []byte("user")
	sec := &stdSecHandler{R: R, ID: ID, O: O, P: P, keyBytes: keyLen, unencryptedMetadata: plain}
	got := sec.computeFileEncyptionKey(refPadPw(pw))
	ref := &refSec{R: R, ID: ID, O: O, P: int32(P), keyLen: keyLen, EncryptMetadata: !plain}
	want := ref.fileKey(pw)
	verifrt.Cover("keys computed")
	verifrt.Assert(verifrt.Equal(got, want), "file encryption key is Algorithm 2 of ISO 32000")
}
