//go:build verif

package pdf

import (
	"bytes"
	"crypto/rand"
	"io"

	"seehuhn.de/go/pdf/internal/verifrt"
)

func verifCheckRead(doc *verifDoc, opt *ReaderOptions) {
	r, err := NewReader(bytes.NewReader(doc.file), int64(len(doc.file)), opt)
	verifrt.Assert(err == nil, "NewReader opens the written file")
	if err != nil {
		return
	}
	verifrt.Cover("reopened")
	for _, e := range doc.objs {
		got, err := r.Get(e.ref, true)
		verifrt.Assert(err == nil, "Get of a written reference succeeds")
		verifrt.Assert(verifEqual(e.obj, got), "written object reads back equal")
	}
	for _, ref := range doc.unwritten {
		got, err := r.Get(ref, true)
		verifrt.Assert(err == nil && got == nil, "never-written reference reads as null")
	}
	for _, e := range doc.stms {
		got, err := r.Get(e.ref, true)
		verifrt.Assert(err == nil, "Get of a stream succeeds")
		stm, ok := got.(*Stream)
		verifrt.Assert(ok, "stream reads back as a stream")
		if !ok {
			continue
		}
		verifrt.Assert(stm.Dict["Kind"] == Name("S"), "stream dictionary entry survives")
		t, _ := stm.Dict["T"].(String)
		verifrt.Assert(string(t) == "t(x", "string in the stream dictionary survives")
		rd, err := DecodeStream(r, nil, stm)
		verifrt.Assert(err == nil, "DecodeStream succeeds")
		if err != nil {
			continue
		}
		data, err2, exhausted := verifrt.ReadAll(rd, 512, len(e.body)/256+8)
		verifrt.Assert(!exhausted && err2 == io.EOF, "decoded stream ends with io.EOF")
		verifrt.Assert(verifrt.Equal(data, e.body), "decoded stream data is byte-identical")
	}
	m := r.GetMeta()
	verifrt.Assert(m.Version == doc.version, "version round-trips")
	if doc.version >= V1_1 {
		verifrt.Assert(len(m.ID) == 2 && bytes.Equal(m.ID[0], doc.id[0]) && bytes.Equal(m.ID[1], doc.id[1]), "ID round-trips")
	}
	verifrt.Assert(m.Info != nil && m.Info.Title == doc.title, "Info round-trips")
	verifrt.Assert(m.Catalog != nil && m.Catalog.Pages == doc.pagesRef, "Catalog round-trips")
}

// Verif_C02_programs: write programs with symbolic payloads, every version,
// output mode and sink kind; what Reader returns equals what was written.
func Verif_C02_programs() {
	p := verifProfile{ops: 2 + verifrt.Tier(), versions: 9, streams: true, compressed: true, symbolic: true}
	doc := verifProduce(p)
	if doc == nil {
		return
	}
	verifCheckRead(doc, nil)
}

// Verif_C02_caller_objects_unchanged: writing never modifies the caller's
// objects, so a value can be written any number of times (with and without
// encryption).
func Verif_C02_caller_objects_unchanged() {
	defer verifFixRand()()
	v := verifVersions[1+verifrt.Choice("version", 8)]
	opt := &WriterOptions{ID: [][]byte{[]byte("0123456789abcdef"), []byte("0123456789abcdef")}}
	if verifrt.Choice("encrypted", 2) == 1 {
		opt.UserPassword = "u"
	}
	var buf bytes.Buffer
	w, err := NewWriter(&buf, v, opt)
	verifrt.Assert(err == nil, "NewWriter succeeds")
	if err != nil {
		return
	}
	var orig []byte
	if opt.UserPassword != "" && v >= V1_6 {
		// AES: data is concrete (AES of symbolic bytes is not encodable)
		orig = [][]byte{[]byte("abc"), {0, '(', 0xff}, {}}[verifrt.Choice("fixed", 3)]
	} else {
		orig = verifrt.Bytes("s", 3)
	}
	s := String(append([]byte{}, orig...))
	var obj Object
	switch verifrt.Choice("position", 3) {
	case 0:
		obj = s
	case 1:
		obj = Array{Integer(1), s}
	default:
		obj = Dict{"S": s}
	}
	r1, r2 := w.Alloc(), w.Alloc()
	verifrt.Assert(w.Put(r1, obj) == nil, "first Put succeeds")
	verifrt.Assert(verifrt.Equal(s, orig), "Put leaves the caller's string unchanged")
	verifrt.Assert(w.Put(r2, obj) == nil, "second Put succeeds")
	verifrt.Assert(verifrt.Equal(s, orig), "second Put leaves the caller's string unchanged")
	w.GetMeta().Catalog.Pages = w.Alloc()
	verifrt.Assert(w.Close() == nil, "Close succeeds")
	verifrt.Cover("written twice")
}

// verifFixRand replaces crypto/rand.Reader by the harness reader (fixed bytes
// that native replays reproduce) and returns the function that restores it.
func verifFixRand() func() {
	old := rand.Reader
	rand.Reader = verifrt.RandReader{}
	return func() { rand.Reader = old }
}

// Verif_C02_encrypted_programs: the producer with a user password, one
// version per cipher (RC4-40, RC4-128, AES-128, AES-256).  String payloads
// are concrete (AES of symbolic data is not encodable): the empty string and
// lengths around the AES block size.
func Verif_C02_encrypted_programs() {
	defer verifFixRand()()
	old := verifConcreteStrings
	verifConcreteStrings = []string{"", "a(b", "fifteen bytes..", "sixteen bytes..!", "seventeen bytes.."}
	defer func() { verifConcreteStrings = old }()
	var cfgs []verifConfig
	for _, v := range []Version{V1_1, V1_4, V1_6, V2_0} {
		cfgs = append(cfgs, verifConfig{v, false, false})
		if verifrt.Tier() > 0 {
			cfgs = append(cfgs, verifConfig{v, true, true})
		}
	}
	p := verifProfile{ops: 1 + verifrt.Tier(), streams: true, compressed: true, symbolic: false, password: "pw", simple: true, noBig: true, configs: cfgs}
	doc := verifProduce(p)
	if doc == nil {
		return
	}
	verifCheckRead(doc, &ReaderOptions{Password: "pw"})
}

// Verif_C02_names: names of three arbitrary bytes as a value and as a
// dictionary key, written with Put or WriteCompressed and read back (the
// program harness keeps its names at one symbolic byte).
func Verif_C02_names() {
	defer verifFixRand()()
	v := []Version{V1_7, V1_4}[verifrt.Choice("version", 2)]
	human := verifrt.Choice("human", 2) == 1
	var buf bytes.Buffer
	w, err := NewWriter(&buf, v, &WriterOptions{HumanReadable: human})
	verifrt.Assert(err == nil, "NewWriter succeeds")
	if err != nil {
		return
	}
	name := Name(verifrt.String("name", 3))
	obj := Object(Dict{name: Integer(1), "V": name})
	ref := w.Alloc()
	if verifrt.Choice("compressed", 2) == 1 {
		verifrt.Assert(w.WriteCompressed([]Reference{ref}, obj) == nil, "WriteCompressed succeeds")
	} else {
		verifrt.Assert(w.Put(ref, obj) == nil, "Put succeeds")
	}
	w.GetMeta().Catalog.Pages = w.Alloc()
	verifrt.Assert(w.Close() == nil, "Close succeeds")
	r, err := NewReader(bytes.NewReader(buf.Bytes()), int64(buf.Len()), nil)
	verifrt.Assert(err == nil, "NewReader opens the written file")
	if err != nil {
		return
	}
	got, err := r.Get(ref, true)
	verifrt.Cover("read back")
	verifrt.Assert(err == nil && verifEqual(obj, got), "written object reads back equal")
}
