//go:build verif

package pdf

import (
	"bytes"

	"seehuhn.de/go/pdf/internal/verifrt"
)

// This directory is a variant of package pdf in which the synchronisation
// sites of resource.go and cursor.go call the harness runtime's scheduling
// points (patch.json: checked textual substitution on the current source).

type verifNode struct {
	ref   Reference
	other *verifNode
}

type verifSchedGetter struct {
	objs map[Reference]Native
	meta MetaInfo
}

func (g *verifSchedGetter) GetMeta() *MetaInfo { return &g.meta }
func (g *verifSchedGetter) Get(ref Reference, canObjStm bool) (Native, error) {
	return g.objs[ref], nil
}

type verifPair struct{ a, b *verifNode }

// Verif_C18_decode_interleavings: G goroutines decode two mutually
// referential objects through one Extractor with a solver-chosen mix of
// Decode, DecodeExclusive and StoreOrLoadPair; every interleaving at the
// cache protocol's synchronisation points is explored.  All results for one
// reference are the identical Go value, an exclusive decode runs its function
// once, nothing deadlocks, and no two accesses race.
func Verif_C18_decode_interleavings() {
	G := 2 + verifrt.Tier()
	ra, rb := NewReference(1, 0), NewReference(2, 0)
	g := &verifSchedGetter{objs: map[Reference]Native{
		ra: Dict{"Other": rb},
		rb: Dict{"Other": ra},
	}}
	g.meta.Version = V1_7
	x := NewExtractor(g)

	runs := make([][2]int, G+1) // decode function runs per goroutine and object
	var mkDecode func(gid int) func(c Cursor, obj Object, isDirect bool) (*verifNode, error)
	mkDecode = func(gid int) func(c Cursor, obj Object, isDirect bool) (*verifNode, error) {
		var dec func(c Cursor, obj Object, isDirect bool) (*verifNode, error)
		dec = func(c Cursor, obj Object, isDirect bool) (*verifNode, error) {
			d, _ := obj.(Dict)
			n := &verifNode{}
			if other, ok := d["Other"].(Reference); ok {
				if other == rb {
					runs[gid][0]++
				} else {
					runs[gid][1]++
				}
				// a cycle is reported as an error by the nested Decode
				n.other, _ = Decode(c, other, dec)
			}
			return n, nil
		}
		return dec
	}

	results := make([]*verifNode, G+1)
	resultRef := make([]Reference, G+1)
	exclusive := make([]bool, G+1)
	ops := make([]int, G+1)
	for i := 1; i <= G; i++ {
		ops[i] = verifrt.Choice("op", 4)
	}
	verifrt.StartSched()
	for i := 1; i <= G; i++ {
		gid := i
		verifrt.Go(func() {
			c := CursorAt(x, nil)
			switch ops[gid] {
			case 0:
				results[gid], _ = Decode(c, ra, mkDecode(gid))
				resultRef[gid] = ra
			case 1:
				results[gid], _ = Decode(c, rb, mkDecode(gid))
				resultRef[gid] = rb
			case 2:
				results[gid], _ = DecodeExclusive(c, ra, mkDecode(gid))
				resultRef[gid] = ra
				exclusive[gid] = true
			default:
				n := &verifNode{}
				got, _ := StoreOrLoadPair(x, ra, n, &verifPair{a: n})
				results[gid] = got
				resultRef[gid] = ra
			}
		})
	}
	verifrt.WaitAll()
	verifrt.Cover("all goroutines finished")

	// identical Go value for every decode of the same reference
	for i := 1; i <= G; i++ {
		verifrt.Assert(results[i] != nil, "every call returns a value")
		for j := i + 1; j <= G; j++ {
			if resultRef[i] == resultRef[j] {
				verifrt.Assert(results[i] == results[j], "all decodes of one reference yield the identical Go value")
			}
		}
	}
	// a later sequential decode sees the same value too
	for i := 1; i <= G; i++ {
		again, _ := Decode(CursorAt(x, nil), resultRef[i], mkDecode(0))
		verifrt.Assert(again == results[i], "a later decode returns the shared value")
	}
	// concurrent exclusive decodes run their function once
	allExclusive, total := true, 0
	for i := 1; i <= G; i++ {
		if !exclusive[i] {
			allExclusive = false
		}
		total += runs[i][0]
	}
	if allExclusive {
		verifrt.Assert(total == 1, "concurrent exclusive decodes of one reference run their function once")
	}
}

// Two typed views of one object, linked to each other before they are
// published (the shape of a merged form field / widget annotation).
type verifField struct{ w *verifWidget }
type verifWidget struct{ f *verifField }

// Verif_C18_pair_interleavings: G goroutines reach one merged object from
// both sides -- Decode for the field type, Decode for the widget type (both
// decode functions build a linked pair and publish it with StoreOrLoadPair,
// as annotation/decode does) or StoreOrLoadPair directly.  Under every
// interleaving each caller gets halves that point at each other, and all
// callers share one pair.
func Verif_C18_pair_interleavings() {
	G := 2 + verifrt.Tier()
	ra := NewReference(1, 0)
	g := &verifSchedGetter{objs: map[Reference]Native{ra: Dict{"FT": Name("Tx"), "Subtype": Name("Widget")}}}
	g.meta.Version = V1_7
	x := NewExtractor(g)
	build := func() (*verifField, *verifWidget) {
		f, w := &verifField{}, &verifWidget{}
		f.w, w.f = w, f
		return StoreOrLoadPair(x, ra, f, w)
	}
	decF := func(c Cursor, obj Object, isDirect bool) (*verifField, error) {
		f, _ := build()
		return f, nil
	}
	decW := func(c Cursor, obj Object, isDirect bool) (*verifWidget, error) {
		_, w := build()
		return w, nil
	}
	fields := make([]*verifField, G+1)
	widgets := make([]*verifWidget, G+1)
	ops := make([]int, G+1)
	for i := 1; i <= G; i++ {
		ops[i] = verifrt.Choice("op", 3)
	}
	verifrt.StartSched()
	for i := 1; i <= G; i++ {
		gid := i
		verifrt.Go(func() {
			c := CursorAt(x, nil)
			switch ops[gid] {
			case 0:
				fields[gid], _ = Decode(c, ra, decF)
			case 1:
				widgets[gid], _ = Decode(c, ra, decW)
			default:
				fields[gid], widgets[gid] = build()
			}
		})
	}
	verifrt.WaitAll()
	verifrt.Cover("all goroutines finished")
	var f0 *verifField
	var w0 *verifWidget
	for i := 1; i <= G; i++ {
		verifrt.Assert(fields[i] != nil || widgets[i] != nil, "every call returns a value")
		if fields[i] != nil {
			verifrt.Assert(fields[i].w != nil && fields[i].w.f == fields[i], "a returned field is linked to a widget that points back at it")
			if f0 == nil {
				f0 = fields[i]
			}
			verifrt.Assert(fields[i] == f0, "all callers share one field")
		}
		if widgets[i] != nil {
			verifrt.Assert(widgets[i].f != nil && widgets[i].f.w == widgets[i], "a returned widget is linked to a field that points back at it")
			if w0 == nil {
				w0 = widgets[i]
			}
			verifrt.Assert(widgets[i] == w0, "all callers share one widget")
		}
		if fields[i] != nil && widgets[i] != nil {
			verifrt.Assert(fields[i].w == widgets[i], "StoreOrLoadPair returns two halves that belong together")
		}
	}
	// the published pair is what later decodes of either type see
	fLater, _ := Decode(CursorAt(x, nil), ra, decF)
	wLater, _ := Decode(CursorAt(x, nil), ra, decW)
	verifrt.Assert(fLater != nil && wLater != nil && fLater.w == wLater && wLater.f == fLater, "later decodes see one linked pair")
	if f0 != nil {
		verifrt.Assert(fLater == f0, "a later decode returns the shared field")
	}
	if w0 != nil {
		verifrt.Assert(wLater == w0, "a later decode returns the shared widget")
	}
}

// verifOddFile is a small file with a well-formed object, an object nested
// deeper than the scanner allows, a syntactically broken object and a missing
// one: the error paths are where package-level state would be shared.
func verifOddFile() []byte {
	var f []byte
	add := func(s string) int {
		off := len(f)
		f = append(f, s...)
		return off
	}
	add("%PDF-1.4\n")
	var offs [6]int
	offs[1] = add("1 0 obj\n<</Type/Catalog/Pages 2 0 R>>\nendobj\n")
	offs[2] = add("2 0 obj\n<</Type/Pages/Kids[]/Count 0>>\nendobj\n")
	offs[3] = add("3 0 obj\n<</A (abc)/B[1 2 3]>>\nendobj\n")
	deep := "4 0 obj\n"
	for i := 0; i < 300; i++ {
		deep += "["
	}
	for i := 0; i < 300; i++ {
		deep += "]"
	}
	offs[4] = add(deep + "\nendobj\n")
	offs[5] = add("5 0 obj\n<< /A >> ) \nendobj\n")
	x := add("xref\n0 7\n0000000000 65535 f \n")
	for i := 1; i <= 5; i++ {
		s := "0000000000" + itoa(offs[i])
		add(s[len(s)-10:] + " 00000 n \n")
	}
	add("0000000000 00001 f \n")
	add("trailer\n<</Size 7/Root 1 0 R>>\nstartxref\n" + itoa(x) + "\n%%EOF\n")
	return f
}

func itoa(n int) string {
	if n == 0 {
		return "0"
	}
	var b []byte
	for n > 0 {
		b = append([]byte{byte('0' + n%10)}, b...)
		n /= 10
	}
	return string(b)
}

// verifReadAll opens its own Reader on data and fetches objects 1..6; the
// outcome of every call is rendered as text (value kind or error message).
// verifFlakySource fails the k-th ReadAt call (k < 0: never).
type verifFlakySource struct {
	r      *bytes.Reader
	calls  int
	failAt int
}

func (f *verifFlakySource) ReadAt(p []byte, off int64) (int, error) {
	i := f.calls
	f.calls++
	if i == f.failAt {
		return 0, errVerifDisk
	}
	return f.r.ReadAt(p, off)
}

var errVerifDisk = &verifDiskError{}

type verifDiskError struct{}

func (*verifDiskError) Error() string { return "simulated disk fault" }

func verifReadAll(data []byte) []string {
	return verifReadAllFrom(&verifFlakySource{r: bytes.NewReader(data), failAt: -1}, len(data))
}

func verifReadAllFrom(src *verifFlakySource, size int) []string {
	var out []string
	r, err := NewReader(src, int64(size), nil)
	if err != nil {
		return []string{"open: " + err.Error()}
	}
	for n := uint32(1); n <= 6; n++ {
		obj, err := r.Get(NewReference(n, 0), true)
		switch {
		case err != nil:
			out = append(out, "error: "+err.Error())
		case obj == nil:
			out = append(out, "null")
		default:
			var b bytes.Buffer
			Format(&b, 0, obj)
			out = append(out, b.String())
		}
	}
	return out
}

// Verif_C18_independent_readers: two goroutines, each with its own Reader on
// its own copy of a file with malformed objects, and a second sequential
// pass: every call returns exactly what it returns alone (the same values and
// the same error texts), and the goroutines share no unsynchronised state --
// package-level variables included.
func Verif_C18_independent_readers() {
	verifrt.Unwind(100000)
	data := verifOddFile()
	alone := verifReadAll(append([]byte{}, data...))
	verifrt.Assert(len(alone) == 6, "file opens")
	// another Reader, whose source fails once at a solver-chosen call, must
	// not leave anything behind for the Readers that follow
	probe := &verifFlakySource{r: bytes.NewReader(data), failAt: -1}
	verifReadAllFrom(probe, len(data))
	flaky := &verifFlakySource{r: bytes.NewReader(data), failAt: verifrt.Len("faultat", 0, probe.calls)}
	verifReadAllFrom(flaky, len(data))
	again := verifReadAll(append([]byte{}, data...))
	same := len(again) == len(alone)
	for i := range alone {
		if i < len(again) && again[i] != alone[i] {
			same = false
		}
	}
	verifrt.Assert(same, "a second Reader returns what the first returned (no state left behind)")
	G := 2
	results := make([][]string, G+1)
	verifrt.StartSched()
	for i := 1; i <= G; i++ {
		gid := i
		own := append([]byte{}, data...)
		verifrt.Go(func() {
			results[gid] = verifReadAll(own)
		})
	}
	verifrt.WaitAll()
	verifrt.Cover("all goroutines finished")
	for i := 1; i <= G; i++ {
		ok := len(results[i]) == len(alone)
		for k := range alone {
			if k < len(results[i]) && results[i][k] != alone[k] {
				ok = false
			}
		}
		verifrt.Assert(ok, "concurrent independent Readers return what each returns alone")
	}
}

// verifView is an interface-typed decode result (as annotation.Annotation or
// acroform.Field are): a decoder may return a nil verifView without an error.
type verifView interface{ view() int }

type verifViewImpl struct{ n int }

func (v *verifViewImpl) view() int { return v.n }

// Verif_C18_interface_results: decode functions whose result type is an
// interface and which may return nil (solver-chosen), called through Decode
// and DecodeExclusive by two goroutines and once more afterwards: every call
// returns what it returns alone -- nil stays nil, nobody panics -- and a
// non-nil result is shared.
func Verif_C18_interface_results() {
	ra := NewReference(1, 0)
	g := &verifSchedGetter{objs: map[Reference]Native{ra: Dict{"K": Integer(1)}}}
	g.meta.Version = V1_7
	x := NewExtractor(g)
	giveNil := verifrt.Bool("nilresult")
	dec := func(c Cursor, obj Object, isDirect bool) (verifView, error) {
		if giveNil {
			return nil, nil
		}
		return &verifViewImpl{n: 7}, nil
	}
	G := 2
	results := make([]verifView, G+1)
	errs := make([]error, G+1)
	ops := make([]int, G+1)
	for i := 1; i <= G; i++ {
		ops[i] = verifrt.Choice("op", 2)
	}
	verifrt.StartSched()
	for i := 1; i <= G; i++ {
		gid := i
		verifrt.Go(func() {
			c := CursorAt(x, nil)
			if ops[gid] == 0 {
				results[gid], errs[gid] = Decode(c, ra, dec)
			} else {
				results[gid], errs[gid] = DecodeExclusive(c, ra, dec)
			}
		})
	}
	verifrt.WaitAll()
	verifrt.Cover("all goroutines finished")
	later1, err1 := Decode(CursorAt(x, nil), ra, dec)
	later2, err2 := DecodeExclusive(CursorAt(x, nil), ra, dec)
	verifrt.Assert(err1 == nil && err2 == nil && errs[1] == nil && errs[2] == nil, "no call reports an error")
	if giveNil {
		verifrt.Assert(results[1] == nil && results[2] == nil && later1 == nil && later2 == nil, "a nil result stays nil for every caller")
	} else {
		verifrt.Assert(results[1] != nil && results[1] == results[2] && later1 == results[1] && later2 == results[1], "a non-nil result is shared by every caller")
	}
}

// Verif_C18_reference_chains: object 1 is a reference to object 2, object 2
// holds the value.  Two (thorough: three) goroutines decode through either
// reference; under every interleaving all decodes that went through the same
// reference hold the identical Go value, also afterwards.
func Verif_C18_reference_chains() {
	r0, r1, r2 := NewReference(3, 0), NewReference(1, 0), NewReference(2, 0)
	// thorough tier: a chain of three (object 3 refers to object 1)
	g := &verifSchedGetter{objs: map[Reference]Native{r0: r1, r1: r2, r2: Dict{"K": Integer(1)}}}
	g.meta.Version = V1_7
	x := NewExtractor(g)
	dec := func(c Cursor, obj Object, isDirect bool) (*verifNode, error) {
		return &verifNode{}, nil
	}
	G := 2
	results := make([]*verifNode, G+1)
	via := make([]Reference, G+1)
	for i := 1; i <= G; i++ {
		via[i] = []Reference{r1, r2, r0}[verifrt.Choice("via", 2+verifrt.Tier())]
	}
	verifrt.StartSched()
	for i := 1; i <= G; i++ {
		gid := i
		verifrt.Go(func() {
			results[gid], _ = Decode(CursorAt(x, nil), via[gid], dec)
		})
	}
	verifrt.WaitAll()
	verifrt.Cover("all goroutines finished")
	for i := 1; i <= G; i++ {
		verifrt.Assert(results[i] != nil, "every call returns a value")
		for j := i + 1; j <= G; j++ {
			if via[i] == via[j] {
				verifrt.Assert(results[i] == results[j], "all decodes of one reference yield the identical Go value")
			}
		}
		again, _ := Decode(CursorAt(x, nil), via[i], dec)
		verifrt.Assert(again == results[i], "a later decode returns the value the concurrent caller was given")
	}
}
