//go:build verif

package pdf

import (
	"seehuhn.de/go/pdf/internal/verifrt"
)

// This directory is a variant of package pdf in which the synchronisation
// sites of resource.go and cursor.go call the harness runtime's scheduling
// points (patch.json: checked textual substitution on the current source).

type verifNode struct {
	ref   Reference
	other *verifNode
}

type verifSchedGetter struct {
	objs map[Reference]Native
	meta MetaInfo
}

func (g *verifSchedGetter) GetMeta() *MetaInfo { return &g.meta }
func (g *verifSchedGetter) Get(ref Reference, canObjStm bool) (Native, error) {
	return g.objs[ref], nil
}

type verifPair struct{ a, b *verifNode }

// Verif_C18_decode_interleavings: G goroutines decode two mutually
// referential objects through one Extractor with a solver-chosen mix of
// Decode, DecodeExclusive and StoreOrLoadPair; every interleaving at the
// cache protocol's synchronisation points is explored.  All results for one
// reference are the identical Go value, an exclusive decode runs its function
// once, nothing deadlocks, and no two accesses race.
func Verif_C18_decode_interleavings() {
	G := 2 + verifrt.Tier()
	ra, rb := NewReference(1, 0), NewReference(2, 0)
	g := &verifSchedGetter{objs: map[Reference]Native{
		ra: Dict{"Other": rb},
		rb: Dict{"Other": ra},
	}}
	g.meta.Version = V1_7
	x := NewExtractor(g)

	runs := make([][2]int, G+1) // decode function runs per goroutine and object
	var mkDecode func(gid int) func(c Cursor, obj Object, isDirect bool) (*verifNode, error)
	mkDecode = func(gid int) func(c Cursor, obj Object, isDirect bool) (*verifNode, error) {
		var dec func(c Cursor, obj Object, isDirect bool) (*verifNode, error)
		dec = func(c Cursor, obj Object, isDirect bool) (*verifNode, error) {
			d, _ := obj.(Dict)
			n := &verifNode{}
			if other, ok := d["Other"].(Reference); ok {
				if other == rb {
					runs[gid][0]++
				} else {
					runs[gid][1]++
				}
				// a cycle is reported as an error by the nested Decode
				n.other, _ = Decode(c, other, dec)
			}
			return n, nil
		}
		return dec
	}

	results := make([]*verifNode, G+1)
	resultRef := make([]Reference, G+1)
	exclusive := make([]bool, G+1)
	ops := make([]int, G+1)
	for i := 1; i <= G; i++ {
		ops[i] = verifrt.Choice("op", 4)
	}
	verifrt.StartSched()
	for i := 1; i <= G; i++ {
		gid := i
		verifrt.Go(func() {
			c := CursorAt(x, nil)
			switch ops[gid] {
			case 0:
				results[gid], _ = Decode(c, ra, mkDecode(gid))
				resultRef[gid] = ra
			case 1:
				results[gid], _ = Decode(c, rb, mkDecode(gid))
				resultRef[gid] = rb
			case 2:
				results[gid], _ = DecodeExclusive(c, ra, mkDecode(gid))
				resultRef[gid] = ra
				exclusive[gid] = true
			default:
				n := &verifNode{}
				got, _ := StoreOrLoadPair(x, ra, n, &verifPair{a: n})
				results[gid] = got
				resultRef[gid] = ra
			}
		})
	}
	verifrt.WaitAll()
	verifrt.Cover("all goroutines finished")

	// identical Go value for every decode of the same reference
	for i := 1; i <= G; i++ {
		verifrt.Assert(results[i] != nil, "every call returns a value")
		for j := i + 1; j <= G; j++ {
			if resultRef[i] == resultRef[j] {
				verifrt.Assert(results[i] == results[j], "all decodes of one reference yield the identical Go value")
			}
		}
	}
	// a later sequential decode sees the same value too
	for i := 1; i <= G; i++ {
		again, _ := Decode(CursorAt(x, nil), resultRef[i], mkDecode(0))
		verifrt.Assert(again == results[i], "a later decode returns the shared value")
	}
	// concurrent exclusive decodes run their function once
	allExclusive, total := true, 0
	for i := 1; i <= G; i++ {
		if !exclusive[i] {
			allExclusive = false
		}
		total += runs[i][0]
	}
	if allExclusive {
		verifrt.Assert(total == 1, "concurrent exclusive decodes of one reference run their function once")
	}
}
