//go:build verif

package pdf

import (
	"bytes"
	"fmt"
	"io"

	"seehuhn.de/go/pdf/internal/verifrt"
)

// Verif_C05_tokeniser_total: the object scanner on arbitrary bytes: returns
// a value or an error, never panics, always terminates.
func Verif_C05_tokeniser_total() {
	n := verifrt.Len("n", 0, 4+verifrt.Tier())
	data := verifrt.Bytes("data", n)
	s := newScanner(bytes.NewReader(data), nil, nil)
	_, err := s.ReadObject()
	verifrt.Cover("scanned")
	if err == nil {
		verifrt.Assert(s.pos <= s.used, "scanner position within the buffer")
	}
	s2 := newScanner(bytes.NewReader(data), nil, nil)
	_, _, err2 := s2.ReadIndirectObject()
	_ = err2
}

// verifWalk opens data in every error handling mode and touches everything
// reachable through the cross-reference table; the implicit assertion is that
// nothing panics and every call returns.
//
// Termination is checked with a read budget: the files are a few hundred
// bytes long, every terminating run makes a few dozen ReadAt calls, and an
// endless loop in the reader makes them without bound.
func verifWalk(data []byte, maxObj int, scan bool) {
	verifWalkModes(data, maxObj, scan, []int{0, 1, 2})
}

func verifWalkModes(data []byte, maxObj int, scan bool, modes []int) {
	for _, mode := range modes {
		src := &verifBudgetReader{r: bytes.NewReader(data), left: 600}
		r, err := NewReader(src, int64(len(data)), &ReaderOptions{ErrorHandling: ReaderErrorHandling(mode)})
		if err != nil {
			continue
		}
		verifrt.Cover("opened")
		for n := 0; n <= maxObj; n++ {
			obj, err := r.Get(NewReference(uint32(n), 0), true)
			if err != nil {
				continue
			}
			if stm, ok := obj.(*Stream); ok {
				rd, err := DecodeStream(r, nil, stm)
				if err == nil {
					_, _, exhausted := verifrt.ReadAll(rd, 512, 64)
					verifrt.Assert(!exhausted, "stream decoding terminates")
					rd.Close()
				}
			}
		}
	}
	if !scan {
		return // the sequential scan uses regular expressions: concrete bytes only
	}
	fi, err := SequentialScan(&verifBudgetReader{r: bytes.NewReader(data), left: 600}, int64(len(data)))
	if err == nil {
		if r, err := fi.MakeReader(nil); err == nil {
			for n := 0; n <= maxObj; n++ {
				r.Get(NewReference(uint32(n), 0), true)
			}
		}
	}
}

type verifBudgetReader struct {
	r    *bytes.Reader
	left int
}

func (b *verifBudgetReader) ReadAt(p []byte, off int64) (int, error) {
	b.left--
	verifrt.Assert(b.left >= 0, "the call terminates (read budget of 600 ReadAt calls)")
	return b.r.ReadAt(p, off)
}

// verifSmallFile writes a fixed small document (concrete bytes).
func verifSmallFile(v Version, human bool) []byte {
	var buf bytes.Buffer
	w, err := NewWriter(&buf, v, &WriterOptions{HumanReadable: human, ID: [][]byte{[]byte("0123456789abcdef"), []byte("0123456789abcdef")}})
	verifrt.Assert(err == nil, "NewWriter succeeds")
	r1 := w.Alloc()
	w.Put(r1, Dict{"A": String("abc"), "B": Array{Integer(1), Name("N")}})
	r2 := w.Alloc()
	ws, _ := w.OpenStream(r2, Dict{"T": Integer(1)}, FilterASCIIHex{})
	ws.Write([]byte("stream data"))
	ws.Close()
	if v >= V1_5 && !human {
		w.WriteCompressed([]Reference{w.Alloc(), w.Alloc()}, Integer(5), String("x"))
	}
	w.GetMeta().Catalog.Pages = w.Alloc()
	verifrt.Assert(w.Close() == nil, "Close succeeds")
	return buf.Bytes()
}

// Verif_C05_byte_mutations: every single-byte edit of a valid file by a
// delimiter-like byte, at every offset, in all three error handling modes and
// through the sequential scan.
func Verif_C05_byte_mutations() {
	verifrt.Unwind(100000)
	cfg := verifrt.Choice("file", 2+verifrt.Tier())
	var data []byte
	switch cfg {
	case 0:
		data = verifSmallFile(V1_4, false)
	case 1:
		data = verifSmallFile(V1_7, false)
	default:
		data = verifSmallFile(V1_7, true)
	}
	pos := verifrt.Len("pos", 0, len(data)-1)
	repls := []byte{'0', ' ', '<', '(', '/', 'R', 0xff, '9', '>', ')', '[', '\n'}
	repl := repls[verifrt.Choice("byte", 4+8*verifrt.Tier())]
	mut := append([]byte{}, data...)
	mut[pos] = repl
	verifrt.Cover("mutated")
	verifWalk(mut, 8, true)
}

// Verif_C05_xref_tampering: a hand-serialised file with an xref stream (no
// filter) whose /Size, /W, /Index, /Prev and /Length and an object stream's
// /N and /First are tampered with: one field at a time takes any int64.
func Verif_C05_xref_tampering() {
	// /Size, /W (2 of 3), /Index (2), /Prev of the cross-reference stream, and
	// the /DecodeParms variants of the object stream
	verifTamper(3 + verifrt.Choice("field", 10))
}

// Verif_C05_objstm_tampering: /N, /First and /Length of the object stream.
func Verif_C05_objstm_tampering() {
	verifTamper(verifrt.Choice("field", 3))
}

func verifTamper(field int) {
	verifrt.TerminationBound(20000)
	// fields 0..8: one integer takes any value; 9..12: the object stream names
	// an indirect object as its /DecodeParms
	val := func(k int, def int64) int64 {
		if k == field {
			if k == 0 {
				// /N sizes an allocation of up to 10000 entries, which the
				// engine would enumerate value by value: boundary values
				ns := []int64{-1, 0, 1, 2, 3, 4, 255, 10000, 10001, 1 << 31, 1<<63 - 1, -1 << 63}
				return ns[verifrt.Choice("tamperedN", len(ns))]
			}
			if k == 1 && verifrt.Tier() == 0 {
				// /First becomes the length of a slice of the discard
				// buffer, which the engine enumerates value by value: any
				// value in [-64, 64] (the stream has 13 bytes) or a large
				// boundary value in the quick tier, any int64 in the
				// thorough tier
				if verifrt.Choice("firstlarge", 2) == 1 {
					ls := []int64{1000, 8191, 8192, 8193, 1 << 31, 1<<63 - 1, -1 << 63}
					return ls[verifrt.Choice("tamperedFirst", len(ls))]
				}
				v := verifrt.Int64("tampered")
				verifrt.Assume(v >= -64 && v <= 64)
				return v
			}
			v := verifrt.Int64("tampered")
			return v
		}
		return def
	}
	var f bytes.Buffer
	// bytes in front of the header: offsets in the file count from "%PDF"
	// (quick tier: only for the fields that are or lead to file offsets)
	junkChoices := 1
	if field >= 8 || verifrt.Tier() > 0 {
		junkChoices = 2 + verifrt.Tier()
	}
	junk := []string{"", "junk\n", "\x00\x01 17 bytes of it\n"}[verifrt.Choice("junk", junkChoices)]
	f.WriteString(junk)
	f.WriteString("%PDF-1.7\n")
	o1 := f.Len() - len(junk)
	f.WriteString("1 0 obj\n<</Type/Catalog/Pages 2 0 R>>\nendobj\n")
	o2 := f.Len() - len(junk)
	f.WriteString("2 0 obj\n<</Type/Pages/Kids[]/Count 0>>\nendobj\n")
	o3 := f.Len() - len(junk)
	members := "4 0 5 2 7 (s)"
	parms := ""
	if field >= 9 {
		// a member of itself, an ordinary object, a missing one; parameters
		// are only looked at for a filtered stream
		parms = "/Filter/LZWDecode" + []string{"/DecodeParms 4 0 R", "/DecodeParms[5 0 R]", "/DecodeParms 2 0 R", "/DecodeParms 9 0 R"}[field-9]
		var enc bytes.Buffer
		lw, err := FilterLZW{}.Encode(V1_7, withDummyClose{&enc})
		verifrt.Assert(err == nil, "LZW encoder available")
		lw.Write([]byte(members))
		lw.Close()
		members = enc.String()
	}
	fmt.Fprintf(&f, "3 0 obj\n<</Type/ObjStm/N %d/First %d/Length %d%s>>\nstream\n%s\nendstream\nendobj\n", val(0, 2), val(1, 8), val(2, int64(len(members))), parms, members)
	o6 := f.Len() - len(junk)
	// entries: 0 free, 1,2,3 in use, 4,5 in object stream 3, 6 the xref stream
	var body bytes.Buffer
	ent := func(t, a, b int) {
		body.WriteByte(byte(t))
		body.WriteByte(byte(a >> 8))
		body.WriteByte(byte(a))
		body.WriteByte(byte(b))
	}
	ent(0, 0, 255)
	ent(1, o1, 0)
	ent(1, o2, 0)
	ent(1, o3, 0)
	ent(2, 3, 0)
	ent(2, 3, 1)
	ent(1, o6, 0)
	// /Prev only when it is the tampered field (a file with one section has none)
	prevEntry := ""
	if field == 8 {
		prevEntry = fmt.Sprintf("/Prev %d", val(8, 0))
	}
	fmt.Fprintf(&f, "6 0 obj\n<</Type/XRef/Size %d/Root 1 0 R/W[%d %d %d]/Index[%d %d]%s/Length %d>>\nstream\n",
		val(3, 7), val(4, 1), val(5, 2), 1, val(6, 0), val(7, 7), prevEntry, int64(body.Len()))
	f.Write(body.Bytes())
	f.WriteString("\nendstream\nendobj\n")
	fmt.Fprintf(&f, "startxref\n%d\n%%%%EOF\n", o6)
	verifrt.Cover("tampered")
	modes := []int{0, 2}
	if verifrt.Tier() > 0 || field >= 9 {
		modes = []int{0, 1, 2}
	}
	verifWalkModes(f.Bytes(), 7, false, modes)
}

// verifCycleGetter serves k objects whose values are references with
// solver-chosen targets, or streams whose /Length, /Filter and /DecodeParms
// are such references.
type verifCycleGetter struct {
	objs map[Reference]Native
	meta MetaInfo
	gets int
}

func (g *verifCycleGetter) GetMeta() *MetaInfo { return &g.meta }
func (g *verifCycleGetter) Get(ref Reference, canObjStm bool) (Native, error) {
	g.gets++
	return g.objs[ref], nil
}

// Verif_C05_reference_cycles: Resolve, GetFilters and Decode on reference
// chains with cycles and self-loops terminate with a value or an error.
func Verif_C05_reference_cycles() {
	k := 3
	g := &verifCycleGetter{objs: map[Reference]Native{}}
	g.meta.Version = V1_7
	tgt := func() Reference { return NewReference(uint32(verifrt.IntRange("target", 1, k+1)), 0) }
	for i := 1; i <= k; i++ {
		switch verifrt.Choice("shape", 4) {
		case 0:
			g.objs[NewReference(uint32(i), 0)] = tgt()
		case 1:
			g.objs[NewReference(uint32(i), 0)] = Array{tgt(), tgt()}
		case 2:
			g.objs[NewReference(uint32(i), 0)] = Name("ASCIIHexDecode")
		case 3:
			g.objs[NewReference(uint32(i), 0)] = Dict{"Name": tgt()}
		}
	}
	root := NewReference(1, 0)
	_, err := Resolve(g, root)
	_ = err
	verifrt.Assert(g.gets <= 4*k+8, "Resolve follows at most a bounded number of references")
	g.gets = 0
	_, err = GetFilters(g, nil, Dict{"Filter": root, "DecodeParms": tgt()})
	_ = err
	verifrt.Assert(g.gets <= 16*k+16, "GetFilters follows at most a bounded number of references")
	verifrt.Cover("walked")
}

var _ = io.EOF

// Verif_C05_xref_entry_budget: whatever /Size and /Index a cross-reference
// stream dictionary declares (arbitrary int64, up to three subsections), if it
// is accepted then the number of entries that will be decoded -- one heap
// entry each -- stays within the documented budget of the stream's raw
// length (limits.XRefEntriesBase + limits.XRefEntriesPerByte * rawLen) and
// below 2^24, and every subsection lies inside [0, Size).
func Verif_C05_xref_entry_budget() {
	size := verifrt.Int64("size")
	rawLen := verifrt.Int64("rawlen")
	verifrt.Assume(rawLen >= 0 && rawLen < 1<<40)
	dict := Dict{"Size": Integer(size), "W": Array{Integer(1), Integer(2), Integer(1)}}
	n := verifrt.Len("subsections", 0, 3)
	var index Array
	for i := 0; i < n; i++ {
		index = append(index, Integer(verifrt.Int64("start")), Integer(verifrt.Int64("count")))
	}
	if n > 0 {
		dict["Index"] = index
	}
	_, ss, err := checkXRefStreamDict(dict, rawLen)
	if err != nil {
		verifrt.Cover("rejected")
		verifrt.Assert(IsMalformed(err), "rejection is a malformed-file error")
		return
	}
	verifrt.Cover("accepted")
	budget := int64(8192) + 32*rawLen // limits.XRefEntriesBase, limits.XRefEntriesPerByte
	var total int64
	inside := true
	for _, sec := range ss {
		total += int64(sec.Size)
		if int64(sec.Start)+int64(sec.Size) > size {
			inside = false
		}
	}
	verifrt.Assert(inside, "every subsection lies below /Size")
	verifrt.Assert(total <= budget, "declared entries stay within the documented budget of the raw length")
	verifrt.Assert(total <= 1<<24, "declared entries stay below 2^24")
}
