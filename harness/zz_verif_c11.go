//go:build verif

package pdf

import (
	"bytes"
	"io"

	"seehuhn.de/go/pdf/internal/verifrt"
)

// verifGetter is an in-memory source file.
type verifGetter struct {
	objs map[Reference]Native
	meta MetaInfo
}

func (g *verifGetter) GetMeta() *MetaInfo { return &g.meta }

func (g *verifGetter) Get(ref Reference, canObjStm bool) (Native, error) {
	return g.objs[ref], nil
}

// verifSrcRef draws a reference to one of the k source objects or to the
// dangling number k+1 (the target is a solver variable, so the graph may be
// cyclic, shared, chained or dangling).
func verifSrcRef(k int) Reference {
	n := verifrt.IntRange("target", 1, k+1)
	// generation 1 does not exist in the source: a stale reference to a
	// number that is in use under generation 0
	g := verifrt.Choice("targetgen", 2)
	return NewReference(uint32(n), uint16(g))
}

func verifLeaf(k int) Object {
	switch verifrt.Choice("leaf", 6) {
	case 0:
		return nil
	case 1:
		return Integer(verifrt.IntRange("leafint", 0, 9))
	case 2:
		return String("s")
	case 3:
		return Array{}
	case 4:
		return Dict{}
	default:
		return verifSrcRef(k)
	}
}

// verifSrcObject draws the value of one source object.
func verifSrcObject(k int) Native {
	switch verifrt.Choice("shape", 6) {
	case 0:
		return nil
	case 1:
		return Integer(verifrt.IntRange("int", 0, 9))
	case 2:
		n := verifrt.Len("arrlen", 0, 2)
		a := Array{}
		for i := 0; i < n; i++ {
			a = append(a, verifLeaf(k))
		}
		return a
	case 3:
		n := verifrt.Len("dictlen", 0, 2)
		d := Dict{}
		for i := 0; i < n; i++ {
			d[Name([]byte{'A' + byte(i)})] = verifLeaf(k)
		}
		return d
	case 4:
		return verifSrcRef(k)
	default:
		// streams: a plain entry, or filter parameters (single and array
		// form) that hold a reference of their own
		switch verifrt.Choice("stmdict", 3) {
		case 0:
			return NewStream(Dict{"L": verifLeaf(k)}, []byte("data"))
		case 1:
			return NewStream(Dict{"Filter": Name("ASCIIHexDecode"), "DecodeParms": Dict{"G": verifSrcRef(k)}}, []byte("64617461>"))
		default:
			return NewStream(Dict{
				"Filter":      Array{Name("ASCIIHexDecode"), Name("ASCIIHexDecode")},
				"DecodeParms": Array{nil, Dict{"G": verifSrcRef(k)}},
			}, []byte("363436313734363e>"))
		}
	}
}

// verifIso checks that the target graph below b simulates the source graph
// below a: same kinds, equal scalars, same lengths and keys, and a consistent
// one-to-one mapping of indirect objects.
type verifIso struct {
	src  *verifGetter
	dst  Getter
	fwd  map[Reference]Reference
	back map[Reference]Reference
	ok   bool
	fuel int
}

func (v *verifIso) fail() { v.ok = false }

func (v *verifIso) same(a, b Object) {
	if !v.ok {
		return
	}
	v.fuel--
	if v.fuel < 0 {
		v.fail()
		return
	}
	// follow reference chains in the source: the copier shortens them
	for {
		ra, isRef := a.(Reference)
		if !isRef {
			break
		}
		rb, isRefB := b.(Reference)
		if !isRefB {
			v.fail()
			return
		}
		if prev, seen := v.fwd[ra]; seen {
			if prev != rb {
				v.fail()
			}
			return
		}
		// the chain end decides the identity of the shared object
		end := ra
		for i := 0; i < 8; i++ {
			nxt, isRef2 := v.src.objs[end].(Reference)
			if !isRef2 {
				break
			}
			end = nxt
		}
		_ = end
		v.fwd[ra] = rb
		nb, err := v.dst.Get(rb, true)
		if err != nil {
			v.fail()
			return
		}
		a = v.src.objs[ra]
		b = nb
		if _, stillRef := a.(Reference); stillRef {
			// a reference to a reference: the target holds the final value
			// directly
			for i := 0; i < 8; i++ {
				r2, isRef2 := a.(Reference)
				if !isRef2 {
					break
				}
				if _, seen := v.fwd[r2]; seen {
					// already related to some target object; values compared there
					return
				}
				a = v.src.objs[r2]
			}
			if _, cyc := a.(Reference); cyc {
				return // a pure reference cycle: nothing more to compare
			}
		}
	}
	switch x := a.(type) {
	case nil:
		if b != nil {
			v.fail()
		}
	case Integer:
		y, ok := b.(Integer)
		if !ok || x != y {
			v.fail()
		}
	case String:
		y, ok := b.(String)
		if !ok || !bytes.Equal(x, y) {
			v.fail()
		}
	case Name:
		y, ok := b.(Name)
		if !ok || x != y {
			v.fail()
		}
	case Array:
		y, ok := b.(Array)
		if !ok || y == nil || len(x) != len(y) {
			v.fail() // an empty array must stay an empty array
			return
		}
		for i := range x {
			v.same(x[i], y[i])
		}
	case Dict:
		y, ok := b.(Dict)
		if !ok || y == nil {
			v.fail()
			return
		}
		for key, xv := range x {
			yv, present := y[key]
			if xv == nil {
				if present && yv != nil {
					v.fail()
				}
				continue
			}
			if !present {
				v.fail()
				return
			}
			v.same(xv, yv)
		}
		for key, yv := range y {
			if yv == nil {
				continue
			}
			if xv, present := x[key]; !present || xv == nil {
				v.fail()
			}
		}
	case *Stream:
		y, ok := b.(*Stream)
		if !ok {
			v.fail()
			return
		}
		v.same(x.Dict, y.Dict)
		da, _, _ := verifrt.ReadAll(x.NewReader(), 64, 4)
		db, _, _ := verifrt.ReadAll(y.NewReader(), 64, 4)
		if !bytes.Equal(da, db) {
			v.fail()
		}
	default:
		v.fail()
	}
}

// Verif_C11_copy_graph: copy a solver-chosen source graph into a Writer,
// close, reopen, and compare the graphs.
func Verif_C11_copy_graph() {
	k := 2 + verifrt.Tier()
	src := &verifGetter{objs: map[Reference]Native{}}
	src.meta.Version = V1_7
	for i := 1; i <= k; i++ {
		src.objs[NewReference(uint32(i), 0)] = verifSrcObject(k)
	}
	var buf bytes.Buffer
	w, err := NewWriter(&buf, V1_7, &WriterOptions{HumanReadable: true})
	verifrt.Assert(err == nil, "NewWriter succeeds")
	if err != nil {
		return
	}
	c := NewCopier(w, src)
	root := NewReference(1, 0)
	newRoot, err := c.CopyReference(root)
	verifrt.Assert(err == nil, "CopyReference succeeds")
	if err != nil {
		return
	}
	again, err := c.CopyReference(root)
	verifrt.Assert(err == nil && again == newRoot, "copying the same reference again returns the same target reference")
	w.GetMeta().Catalog.Pages = w.Alloc()
	verifrt.Assert(w.Close() == nil, "Close succeeds")
	verifrt.Cover("copied")
	r, err := NewReader(bytes.NewReader(buf.Bytes()), int64(buf.Len()), nil)
	verifrt.Assert(err == nil, "target reopens")
	if err != nil {
		return
	}
	iso := &verifIso{src: src, dst: r, fwd: map[Reference]Reference{}, back: map[Reference]Reference{}, ok: true, fuel: 200}
	iso.same(root, newRoot)
	verifrt.Assert(iso.ok, "target graph is isomorphic to the source graph")
}

var _ = io.EOF

// Verif_C11_encrypted_copy: a real source file and a real target file with
// solver-chosen, different encryption (none, RC4-128, AES-128, AES-256):
// strings, nested strings and stream data copied from one to the other read
// back equal.
func Verif_C11_encrypted_copy() {
	defer verifFixRand()()
	verifrt.Unwind(40000)
	type cfg struct {
		v  Version
		pw string
	}
	cfgs := []cfg{{V1_7, ""}, {V1_4, "src"}, {V1_7, "src"}, {V2_0, "src"}}
	sc := cfgs[verifrt.Choice("source", len(cfgs))]
	tc := cfgs[verifrt.Choice("target", len(cfgs))]
	// source
	var sbuf bytes.Buffer
	sw, err := NewWriter(&sbuf, sc.v, &WriterOptions{UserPassword: sc.pw, ID: [][]byte{[]byte("0123456789abcdef"), []byte("0123456789abcdef")}})
	verifrt.Assert(err == nil, "source writer")
	if err != nil {
		return
	}
	secret := []byte("sixteen bytes..!+")
	body := []byte("stream data with a secret\n")
	leaf := sw.Alloc()
	verifrt.Assert(sw.Put(leaf, Dict{"S": String(secret)}) == nil, "Put")
	stm := sw.Alloc()
	ws, err := sw.OpenStream(stm, Dict{"T": String(secret), "Leaf": leaf}, FilterASCIIHex{})
	verifrt.Assert(err == nil, "OpenStream")
	ws.Write(body)
	verifrt.Assert(ws.Close() == nil, "stream closes")
	root := sw.Alloc()
	verifrt.Assert(sw.Put(root, Array{String(secret), stm, leaf}) == nil, "Put")
	sw.GetMeta().Catalog.Pages = sw.Alloc()
	verifrt.Assert(sw.Close() == nil, "source closes")
	src, err := NewReader(bytes.NewReader(sbuf.Bytes()), int64(sbuf.Len()), &ReaderOptions{Password: sc.pw})
	verifrt.Assert(err == nil, "source opens")
	if err != nil {
		return
	}
	// target
	var tbuf bytes.Buffer
	tpw := ""
	if tc.pw != "" {
		tpw = "tgt"
	}
	tw, err := NewWriter(&tbuf, tc.v, &WriterOptions{UserPassword: tpw, ID: [][]byte{[]byte("fedcba9876543210"), []byte("fedcba9876543210")}})
	verifrt.Assert(err == nil, "target writer")
	if err != nil {
		return
	}
	c := NewCopier(tw, src)
	newRoot, err := c.CopyReference(root)
	verifrt.Assert(err == nil, "copy succeeds")
	tw.GetMeta().Catalog.Pages = tw.Alloc()
	verifrt.Assert(tw.Close() == nil, "target closes")
	dst, err := NewReader(bytes.NewReader(tbuf.Bytes()), int64(tbuf.Len()), &ReaderOptions{Password: tpw})
	verifrt.Assert(err == nil, "target opens")
	if err != nil {
		return
	}
	verifrt.Cover("copied")
	obj, err := dst.Get(newRoot, true)
	arr, _ := obj.(Array)
	verifrt.Assert(err == nil && len(arr) == 3, "root array copied")
	if len(arr) != 3 {
		return
	}
	s0, _ := arr[0].(String)
	verifrt.Assert(bytes.Equal(s0, secret), "string copied")
	so, err := Resolve(dst, arr[1])
	st, isStm := so.(*Stream)
	verifrt.Assert(err == nil && isStm, "stream copied")
	if isStm {
		t, _ := st.Dict["T"].(String)
		verifrt.Assert(bytes.Equal(t, secret), "string in the stream dictionary copied")
		rd, err := DecodeStream(dst, nil, st)
		verifrt.Assert(err == nil, "DecodeStream succeeds")
		if err == nil {
			data, rerr, _ := verifrt.ReadAll(rd, 256, 8)
			verifrt.Assert(rerr == io.EOF && bytes.Equal(data, body), "stream data copied")
		}
		lo, _ := Resolve(dst, st.Dict["Leaf"])
		ld, _ := lo.(Dict)
		ls, _ := ld["S"].(String)
		verifrt.Assert(bytes.Equal(ls, secret), "string behind the stream dictionary copied")
		// the leaf is shared between the array and the stream dictionary
		verifrt.Assert(st.Dict["Leaf"] == arr[2], "shared object stays shared")
	}
}
