//go:build verif

package pagetree

import (
	"seehuhn.de/go/pdf"
	"seehuhn.de/go/pdf/internal/verifrt"
)

type verifTopoGetter struct {
	objs map[pdf.Reference]pdf.Native
	meta pdf.MetaInfo
	gets int
}

func (g *verifTopoGetter) GetMeta() *pdf.MetaInfo { return &g.meta }
func (g *verifTopoGetter) Get(ref pdf.Reference, canObjStm bool) (pdf.Native, error) {
	g.gets++
	return g.objs[ref], nil
}

// Verif_C05_pagetree_topologies: page tree walkers on every reference
// topology over k nodes (cycles, self-loops, sharing, dangling references,
// wrong /Count): they terminate, never panic, and list no node twice.
func Verif_C05_pagetree_topologies() {
	k := 3
	g := &verifTopoGetter{objs: map[pdf.Reference]pdf.Native{}}
	g.meta.Version = pdf.V1_7
	tgt := func() pdf.Reference { return pdf.NewReference(uint32(verifrt.IntRange("target", 1, k+1)), 0) }
	for i := 1; i <= k; i++ {
		d := pdf.Dict{}
		if verifrt.Bool("ispage") {
			d["Type"] = pdf.Name("Page")
		} else {
			d["Type"] = pdf.Name("Pages")
			n := verifrt.Len("nkids", 0, 2)
			kids := pdf.Array{}
			for j := 0; j < n; j++ {
				kids = append(kids, tgt())
			}
			d["Kids"] = kids
			d["Count"] = pdf.Integer(verifrt.IntRange("count", -1, 3))
		}
		d["Parent"] = tgt()
		g.objs[pdf.NewReference(uint32(i), 0)] = d
	}
	g.meta.Catalog = &pdf.Catalog{Pages: pdf.NewReference(1, 0)}
	pages, err := FindPages(g)
	if err == nil {
		verifrt.Assert(len(pages) <= k, "no node is listed twice")
	}
	verifrt.Assert(g.gets <= 8*k+8, "FindPages fetches a bounded number of objects")
	g.gets = 0
	n := 0
	for range NewIterator(g).All() {
		n++
	}
	verifrt.Assert(n <= k && g.gets <= 8*k+8, "Iterator.All terminates and lists no node twice")
	g.gets = 0
	NumPages(g)
	GetPage(g, verifrt.IntRange("pageno", -1, 3))
	verifrt.Assert(g.gets <= 16*k+16, "NumPages and GetPage fetch a bounded number of objects")
	verifrt.Cover("walked")
}
