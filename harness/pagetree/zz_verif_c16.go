//go:build verif

package pagetree

import (
	"bytes"

	"seehuhn.de/go/pdf"
	"seehuhn.de/go/pdf/internal/verifrt"
)

// Model of the document order: a range is a list of pages and sub-ranges in
// insertion order.
type verifRange struct {
	items  []any // int (page id) or *verifRange
	w      *Writer
	closed bool
}

func (r *verifRange) flatten(out []int) []int {
	for _, it := range r.items {
		switch x := it.(type) {
		case int:
			out = append(out, x)
		case *verifRange:
			out = x.flatten(out)
		}
	}
	return out
}

type verifPageSpec struct {
	ref      pdf.Reference
	rotate   int  // effective rotation
	bigBox   bool // which of the two media boxes
	hasCrop  bool
	cbAt     int // position reported by a NextPageNumber callback registered just before (-2: none)
	cbCalled bool
}

var verifBoxes = []pdf.Array{
	{pdf.Integer(0), pdf.Integer(0), pdf.Integer(100), pdf.Integer(100)},
	{pdf.Integer(0), pdf.Integer(0), pdf.Integer(200), pdf.Integer(300)},
}

// verifRunProgram executes a solver-chosen program on nested page tree
// writers and checks the written tree.
func verifRunProgram(steps int, attrs bool) {
	var buf bytes.Buffer
	out, err := pdf.NewWriter(&buf, pdf.V1_7, &pdf.WriterOptions{HumanReadable: true})
	verifrt.Assert(err == nil, "NewWriter succeeds")
	root := &verifRange{w: NewWriter(out, nil)}
	stack := []*verifRange{root}
	var pages []*verifPageSpec
	var pending []*verifPageSpec // callbacks registered, waiting for the next page of that writer
	pendingFor := map[*verifRange][]int{}
	cbResults := map[int]int{} // callback id -> reported position
	cbTarget := map[int]int{}  // callback id -> page id it refers to (-1: none)
	ncb := 0
	_ = pending

	for s := 0; s < steps; s++ {
		cur := stack[len(stack)-1]
		op := verifrt.Choice("op", 4)
		switch op {
		case 0, 3: // append a page (3: after registering a page-number callback)
			if op == 3 {
				id := ncb
				ncb++
				cbTarget[id] = -1
				cur.w.NextPageNumber(func(n int) { cbResults[id] = n })
				pendingFor[cur] = append(pendingFor[cur], id)
			}
			spec := &verifPageSpec{ref: out.Alloc(), cbAt: -2}
			d := pdf.Dict{"Type": pdf.Name("Page"), "ID": pdf.Integer(len(pages))}
			if attrs {
				switch verifrt.Choice("rotate", 3) {
				case 1:
					d["Rotate"] = pdf.Integer(0)
				case 2:
					d["Rotate"] = pdf.Integer(90)
					spec.rotate = 90
				}
				spec.bigBox = verifrt.Choice("box", 2) == 1
			}
			if spec.bigBox {
				d["MediaBox"] = verifBoxes[1]
			} else {
				d["MediaBox"] = verifBoxes[0]
			}
			for _, id := range pendingFor[cur] {
				cbTarget[id] = len(pages)
			}
			pendingFor[cur] = nil
			verifrt.Assert(cur.w.AppendPageDict(spec.ref, d) == nil, "AppendPageDict succeeds")
			cur.items = append(cur.items, len(pages))
			pages = append(pages, spec)
		case 1: // open a nested range at the current position
			if len(stack) >= 3 {
				continue
			}
			sub, err := cur.w.NewRange()
			verifrt.Assert(err == nil, "NewRange succeeds")
			nr := &verifRange{w: sub}
			cur.items = append(cur.items, nr)
			stack = append(stack, nr)
		case 2: // close the innermost range
			if len(stack) == 1 {
				continue
			}
			_, err := cur.w.Close()
			verifrt.Assert(err == nil, "closing a range succeeds")
			cur.closed = true
			stack = stack[:len(stack)-1]
		}
	}
	verifrt.Assume(len(pages) > 0)
	rootRef, err := root.w.Close()
	verifrt.Assert(err == nil, "closing the root succeeds")
	out.GetMeta().Catalog.Pages = rootRef
	verifrt.Assert(out.Close() == nil, "Close succeeds")
	verifrt.Cover("tree written")

	r, err := pdf.NewReader(bytes.NewReader(buf.Bytes()), int64(buf.Len()), nil)
	verifrt.Assert(err == nil, "file reopens")
	if err != nil {
		return
	}
	want := root.flatten(nil)

	// document order and effective attributes through the library's reader
	i := 0
	it := NewIterator(r)
	for ref, d := range it.All() {
		if i >= len(want) {
			i++
			continue
		}
		spec := pages[want[i]]
		verifrt.Assert(ref == spec.ref && d["ID"] == pdf.Integer(want[i]), "pages are listed in document order")
		rot, _ := d["Rotate"].(pdf.Integer)
		verifrt.Assert(int(rot) == spec.rotate, "effective Rotate equals the one given")
		box, _ := d["MediaBox"].(pdf.Array)
		wantBox := verifBoxes[0]
		if spec.bigBox {
			wantBox = verifBoxes[1]
		}
		verifrt.Assert(len(box) == 4 && box[2] == wantBox[2] && box[3] == wantBox[3], "effective MediaBox equals the one given")
		i++
	}
	verifrt.Assert(it.Err == nil && i == len(want), "every page is listed exactly once")

	// structure, read independently of the iterator
	c := pdf.NewCursor(r)
	var order []pdf.Reference
	var walk func(ref, parent pdf.Reference, depth int) int
	okStruct := true
	walk = func(ref, parent pdf.Reference, depth int) int {
		d, err := c.Dict(ref)
		if err != nil || depth > 8 {
			okStruct = false
			return 0
		}
		if parent != 0 && d["Parent"] != parent {
			okStruct = false // /Parent points to the node that lists the child
		}
		if d["Type"] == pdf.Name("Page") {
			order = append(order, ref)
			return 1
		}
		kids, _ := c.Array(d["Kids"])
		if len(kids) == 0 || len(kids) > maxDegree {
			okStruct = false
		}
		n := 0
		for _, k := range kids {
			kr, isRef := k.(pdf.Reference)
			if !isRef {
				okStruct = false
				continue
			}
			n += walk(kr, ref, depth+1)
		}
		if d["Count"] != pdf.Integer(n) {
			okStruct = false // /Count equals the number of leaf pages below
		}
		return n
	}
	total := walk(rootRef, 0, 0)
	verifrt.Assert(okStruct, "structure: /Parent, /Count and the fan-out limit hold at every node")
	verifrt.Assert(total == len(want), "the tree holds every page")
	sameOrder := len(order) == len(want)
	for k := range want {
		if k < len(order) && order[k] != pages[want[k]].ref {
			sameOrder = false
		}
	}
	verifrt.Assert(sameOrder, "kids are listed in document order")

	// page-number callbacks report final positions
	pos := map[int]int{}
	for k, id := range want {
		pos[id] = k
	}
	for id := 0; id < ncb; id++ {
		got, called := cbResults[id]
		verifrt.Assert(called, "page-number callback is called")
		if t := cbTarget[id]; t >= 0 {
			verifrt.Assert(got == pos[t], "callback reports the page's final position")
		} else {
			verifrt.Assert(got == -1, "callback reports -1 when no page follows")
		}
	}
}

// Verif_C16_real_fanout: the real fan-out of 16 crossed with long runs of
// appends (17, 33 and, in the thorough tier, 257 pages) mixed with one range.
func Verif_C16_real_fanout() {
	verifrt.Unwind(200000)
	sizes := []int{1, 15, 16, 17, 33}
	if verifrt.Tier() > 0 {
		sizes = append(sizes, 256, 257)
	}
	n := sizes[verifrt.Choice("pages", len(sizes))]
	rangeAt := verifrt.Len("rangeat", 0, min(n, 3))
	rangeLen := verifrt.Len("rangelen", 0, 2)
	var buf bytes.Buffer
	out, _ := pdf.NewWriter(&buf, pdf.V1_7, &pdf.WriterOptions{HumanReadable: true})
	root := NewWriter(out, nil)
	var want []pdf.Reference
	add := func(w *Writer, rot int) {
		ref := out.Alloc()
		d := pdf.Dict{"Type": pdf.Name("Page"), "MediaBox": verifBoxes[0]}
		if rot != 0 {
			d["Rotate"] = pdf.Integer(rot)
		}
		verifrt.Assert(w.AppendPageDict(ref, d) == nil, "AppendPageDict succeeds")
		want = append(want, ref)
	}
	for i := 0; i < n; i++ {
		if i == rangeAt && rangeLen > 0 {
			sub, err := root.NewRange()
			verifrt.Assert(err == nil, "NewRange succeeds")
			for k := 0; k < rangeLen; k++ {
				add(sub, 90)
			}
			sub.Close()
		}
		add(root, 0)
	}
	rootRef, err := root.Close()
	verifrt.Assert(err == nil, "closing the root succeeds")
	out.GetMeta().Catalog.Pages = rootRef
	verifrt.Assert(out.Close() == nil, "Close succeeds")
	r, err := pdf.NewReader(bytes.NewReader(buf.Bytes()), int64(buf.Len()), nil)
	verifrt.Assert(err == nil, "file reopens")
	if err != nil {
		return
	}
	got, err := FindPages(r)
	verifrt.Assert(err == nil && len(got) == len(want), "FindPages lists every page")
	same := true
	for i := range want {
		if i < len(got) && got[i] != want[i] {
			same = false
		}
	}
	verifrt.Assert(same, "pages are listed in document order")
	num, err := NumPages(r)
	verifrt.Assert(err == nil && num == len(want), "NumPages equals the number of pages")
}
