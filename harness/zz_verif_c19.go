//go:build verif

package pdf

import (
	"bytes"
	"errors"
	"io"

	"seehuhn.de/go/pdf/internal/verifrt"
)

var errVerifInjected = errors.New("injected I/O failure")

// verifFaultyReader fails the k-th ReadAt call (counting from 0); with
// sticky set, every call from the k-th on fails.
type verifFaultyReader struct {
	data   []byte
	calls  int
	failAt int // -1: never
	sticky bool
}

func (r *verifFaultyReader) ReadAt(p []byte, off int64) (int, error) {
	i := r.calls
	r.calls++
	if r.failAt >= 0 && (i == r.failAt || (r.sticky && i > r.failAt)) {
		return 0, errVerifInjected
	}
	if off < 0 {
		return 0, errors.New("negative offset")
	}
	if off >= int64(len(r.data)) {
		return 0, io.EOF
	}
	n := copy(p, r.data[off:])
	if n < len(p) {
		return n, io.EOF
	}
	return n, nil
}

// verifOutcome is what one read scenario observed.
type verifOutcome struct {
	openErr  error
	vals     []Object
	errs     []error
	data     [][]byte
	dataErrs []error
	title    TextString
	hasInfo  bool
	pages    Object
}

func verifReadScenario(doc *verifDoc, src *verifFaultyReader, opt *ReaderOptions) *verifOutcome {
	out := &verifOutcome{}
	r, err := NewReader(src, int64(len(doc.file)), opt)
	out.openErr = err
	if err != nil {
		return out
	}
	m := r.GetMeta()
	if m.Info != nil {
		out.hasInfo = true
		out.title = m.Info.Title
	}
	if m.Catalog != nil {
		out.pages = m.Catalog.Pages
	}
	for _, e := range doc.objs {
		v, err := r.Get(e.ref, true)
		out.vals = append(out.vals, v)
		out.errs = append(out.errs, err)
	}
	for _, e := range doc.stms {
		v, err := r.Get(e.ref, true)
		var data []byte
		if stm, ok := v.(*Stream); ok && err == nil {
			rd, err2 := DecodeStream(r, nil, stm)
			err = err2
			if err2 == nil {
				var rerr error
				data, rerr, _ = verifrt.ReadAll(rd, 512, 16)
				if rerr != io.EOF {
					err = rerr
				}
			}
		}
		out.data = append(out.data, data)
		out.dataErrs = append(out.dataErrs, err)
	}
	return out
}

// verifFaultOK: the error carries the injected failure and is not blamed on
// the file.
func verifFaultOK(err error) bool {
	return errors.Is(err, errVerifInjected) && !IsMalformed(err)
}

func verifC19Profile() verifProfile {
	cfgs := []verifConfig{{V1_4, false, false}, {V1_7, false, false}}
	if verifrt.Tier() > 0 {
		cfgs = append(cfgs, verifConfig{V1_7, true, false}, verifConfig{V2_0, false, true})
	}
	return verifProfile{ops: 1 + verifrt.Tier(), streams: true, compressed: true, symbolic: false, noBig: true, simple: verifrt.Tier() == 0, configs: cfgs}
}

// Verif_C19_read_faults: for every index k of a ReadAt call made while the
// file is opened and read (fail only the k-th call / fail from the k-th call
// on), every affected call returns what it returns without the fault, or an
// error that carries the source's error and is not a malformed-file error.
func Verif_C19_read_faults() {
	doc := verifProduce(verifC19Profile())
	if doc == nil {
		return
	}
	mode := ReaderErrorHandling(verifrt.Choice("errmode", 3))
	opt := &ReaderOptions{ErrorHandling: mode}
	clean := &verifFaultyReader{data: doc.file, failAt: -1}
	want := verifReadScenario(doc, clean, opt)
	verifrt.Assert(want.openErr == nil, "fault-free open succeeds")
	if want.openErr != nil {
		return
	}
	k := verifrt.Len("k", 0, clean.calls-1)
	sticky := verifrt.Choice("sticky", 2) == 1
	src := &verifFaultyReader{data: doc.file, failAt: k, sticky: sticky}
	got := verifReadScenario(doc, src, opt)
	verifrt.Cover("faulted")
	verifrt.Observe("mode", int(mode))
	verifrt.Observe("k", k)
	verifrt.Observe("sticky", sticky)
	if got.openErr != nil {
		verifrt.Assert(verifFaultOK(got.openErr), "open reports the I/O failure as such")
		return
	}
	verifrt.Assert(got.hasInfo == want.hasInfo && got.title == want.title, "Info is not silently dropped")
	verifrt.Assert(verifEqual(got.pages, want.pages), "Catalog is not silently altered")
	for i := range want.vals {
		if got.errs[i] != nil {
			verifrt.Assert(verifFaultOK(got.errs[i]), "Get reports the I/O failure as such")
		} else {
			verifrt.Assert(verifEqual(want.vals[i], got.vals[i]), "Get returns the fault-free value or an error")
		}
	}
	for i := range want.data {
		if got.dataErrs[i] != nil {
			verifrt.Assert(verifFaultOK(got.dataErrs[i]), "stream access reports the I/O failure as such")
		} else {
			verifrt.Assert(bytes.Equal(want.data[i], got.data[i]), "stream data equals the fault-free data")
		}
	}
}

// verifFaultySink fails the k-th Write or Seek call.
type verifFaultySink struct {
	verifSeekBuf
	calls  int
	failAt int
	once   bool // fail only the failAt-th call instead of every call from it on
}

func (s *verifFaultySink) fails(i int) bool {
	return i == s.failAt || (!s.once && i > s.failAt)
}

func (s *verifFaultySink) Write(p []byte) (int, error) {
	i := s.calls
	s.calls++
	if s.fails(i) {
		return 0, errVerifInjected
	}
	return s.verifSeekBuf.Write(p)
}

type verifFaultySeekSink struct{ *verifFaultySink }

func (s verifFaultySeekSink) Seek(off int64, whence int) (int64, error) {
	i := s.calls
	s.calls++
	if s.fails(i) {
		return 0, errVerifInjected
	}
	return s.verifSeekBuf.Seek(off, whence)
}

// verifWriteProgram runs a fixed small program and returns the first error.
func verifWriteProgram(sink io.Writer, v Version, human bool) error {
	w, err := NewWriter(sink, v, &WriterOptions{HumanReadable: human})
	if err != nil {
		return err
	}
	r1 := w.Alloc()
	if err := w.Put(r1, Dict{"A": String("abc")}); err != nil {
		return err
	}
	r2 := w.Alloc()
	ws, err := w.OpenStream(r2, nil, FilterASCIIHex{})
	if err != nil {
		return err
	}
	big := make([]byte, 3000)
	for i := range big {
		big[i] = byte(i)
	}
	if _, err := ws.Write(big); err != nil {
		return err
	}
	if err := ws.Close(); err != nil {
		return err
	}
	if v >= V1_5 && !human {
		if err := w.WriteCompressed([]Reference{w.Alloc()}, Integer(5)); err != nil {
			return err
		}
	}
	w.GetMeta().Catalog.Pages = w.Alloc()
	return w.Close()
}

// Verif_C19_write_faults: if the sink fails at the k-th Write/Seek (only
// there, or from then on), some Writer call no later than Close returns an error carrying
// the sink's error.
func Verif_C19_write_faults() {
	defer verifFixRand()()
	verifrt.Unwind(8000)
	v := []Version{V1_4, V1_7, V2_0}[verifrt.Choice("version", 3)]
	human := verifrt.Choice("human", 2) == 1
	seekable := verifrt.Choice("seekable", 2) == 1
	clean := &verifFaultySink{failAt: 1 << 30}
	var sink io.Writer = clean
	if seekable {
		sink = verifFaultySeekSink{clean}
	}
	verifrt.Assert(verifWriteProgram(sink, v, human) == nil, "fault-free program succeeds")
	k := verifrt.Len("k", 0, clean.calls-1)
	faulty := &verifFaultySink{failAt: k, once: verifrt.Choice("once", 2) == 1}
	sink = faulty
	if seekable {
		sink = verifFaultySeekSink{faulty}
	}
	err := verifWriteProgram(sink, v, human)
	verifrt.Cover("faulted")
	verifrt.Assert(err != nil, "a failing sink is reported no later than Close")
	verifrt.Assert(errors.Is(err, errVerifInjected), "the error carries the sink's error")
}

// verifEncryptedDoc writes a document under a user password with an object
// stream of n members (several cipher blocks and several source reads long)
// and a Flate stream behind ASCIIHex.
func verifEncryptedDoc(v Version, n int) *verifDoc {
	doc := &verifDoc{version: v}
	var buf bytes.Buffer
	w, err := NewWriter(&buf, v, &WriterOptions{
		ID:           [][]byte{[]byte("0123456789abcdef"), []byte("0123456789abcdef")},
		UserPassword: "pw",
	})
	verifrt.Assert(err == nil, "NewWriter succeeds")
	if err != nil {
		return nil
	}
	r1 := w.Alloc()
	o1 := Object(Dict{"A": String("abc")})
	verifrt.Assert(w.Put(r1, o1) == nil, "Put succeeds")
	doc.objs = append(doc.objs, verifExpObj{r1, o1})
	refs := make([]Reference, n)
	objs := make([]Object, n)
	for i := range refs {
		refs[i] = w.Alloc()
		objs[i] = Dict{"K": Integer(i), "S": String("some longer string value to fill space")}
	}
	verifrt.Assert(w.WriteCompressed(refs, objs...) == nil, "WriteCompressed succeeds")
	for _, i := range []int{0, n / 2, n - 1} {
		doc.objs = append(doc.objs, verifExpObj{refs[i], objs[i]})
	}
	sr := w.Alloc()
	body := []byte("stream data behind two filters\n")
	ws, err := w.OpenStream(sr, Dict{"Kind": Name("S")}, FilterASCIIHex{}, FilterFlate{})
	verifrt.Assert(err == nil, "OpenStream succeeds")
	if err != nil {
		return nil
	}
	ws.Write(body)
	verifrt.Assert(ws.Close() == nil, "stream closes")
	doc.stms = append(doc.stms, verifExpStm{sr, body})
	doc.pagesRef = w.Alloc()
	w.GetMeta().Catalog.Pages = doc.pagesRef
	verifrt.Assert(w.Close() == nil, "Close succeeds")
	doc.file = buf.Bytes()
	return doc
}

// Verif_C19_read_faults_encrypted: the read-fault property on encrypted
// documents with an object stream that is read in several pieces and a
// two-filter chain; every affected call also terminates (a loop still
// running after 200000 iterations on a file of a few kilobytes is reported).
func Verif_C19_read_faults_encrypted() {
	defer verifFixRand()()
	verifrt.TerminationBound(200000)
	versions := []Version{V1_7, V1_4, V2_0}
	v := versions[verifrt.Choice("version", 1+2*verifrt.Tier())]
	doc := verifEncryptedDoc(v, 24)
	if doc == nil {
		return
	}
	mode := ReaderErrorHandling(verifrt.Choice("errmode", 3))
	opt := &ReaderOptions{ErrorHandling: mode, Password: "pw"}
	clean := &verifFaultyReader{data: doc.file, failAt: -1}
	want := verifReadScenario(doc, clean, opt)
	verifrt.Assert(want.openErr == nil, "fault-free open succeeds")
	if want.openErr != nil {
		return
	}
	for i := range want.vals {
		verifrt.Assert(want.errs[i] == nil && verifEqual(doc.objs[i].obj, want.vals[i]), "fault-free read returns the written object")
	}
	k := verifrt.LenLayout("k", 0, clean.calls-1)
	sticky := verifrt.Choice("sticky", 2) == 1
	src := &verifFaultyReader{data: doc.file, failAt: k, sticky: sticky}
	got := verifReadScenario(doc, src, opt)
	verifrt.Cover("faulted")
	if got.openErr != nil {
		verifrt.Assert(verifFaultOK(got.openErr), "open reports the I/O failure as such")
		return
	}
	for i := range want.vals {
		if got.errs[i] != nil {
			verifrt.Assert(verifFaultOK(got.errs[i]), "Get reports the I/O failure as such")
		} else {
			verifrt.Assert(verifEqual(want.vals[i], got.vals[i]), "Get returns the fault-free value or an error")
		}
	}
	for i := range want.data {
		if got.dataErrs[i] != nil {
			verifrt.Assert(verifFaultOK(got.dataErrs[i]), "stream access reports the I/O failure as such")
		} else {
			verifrt.Assert(bytes.Equal(want.data[i], got.data[i]), "stream data equals the fault-free data")
		}
	}
}
