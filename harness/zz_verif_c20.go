//go:build verif

package pdf

import (
	"bytes"
	"io"

	"seehuhn.de/go/pdf/internal/verifrt"
)

type verifPlaced struct {
	ref        Reference
	start, end int64 // true offsets of "N G obj" and of the byte after "endobj"
	obj        Object
	body       []byte
	isStream   bool
	raw        []byte // streams: the bytes between "stream" EOL and the EOL before "endstream"
	lenEnd     int64  // streams with an indirect /Length: end of the length object (0: direct)
}

// verifPlace locates every expected object of doc in the complete file using
// the writer's own offsets and the strict reader for the object's extent.
func verifPlace(doc *verifDoc) []verifPlaced {
	var out []verifPlaced
	getLen := func(r Reference) (int64, bool) {
		e := doc.w.xref[r.Number()]
		if e == nil {
			return 0, false
		}
		o, ok := sIndirect(doc.file, e.Pos, func(Reference) (int64, bool) { return 0, false })
		if !ok {
			return 0, false
		}
		v, isInt := o.val.(Integer)
		return int64(v), isInt
	}
	add := func(ref Reference, obj Object, body []byte, isStream bool) {
		e := doc.w.xref[ref.Number()]
		verifrt.Assert(e != nil && e.InStream == 0, "object written directly")
		o, ok := sIndirect(doc.file, e.Pos, getLen)
		verifrt.Assert(ok, "strict reader finds the object at the writer's offset")
		if !ok {
			return
		}
		// the object is complete once the keyword endobj is there (o.end also
		// counts the end-of-line after it)
		pl := verifPlaced{ref: ref, start: e.Pos, end: int64(o.end) - 1, obj: obj, body: body, isStream: isStream}
		if isStream {
			pl.raw = o.data
			if lr, indirect := o.val.(Dict)["Length"].(Reference); indirect {
				if le := doc.w.xref[lr.Number()]; le != nil {
					if lo, ok := sIndirect(doc.file, le.Pos, func(Reference) (int64, bool) { return 0, false }); ok {
						pl.lenEnd = int64(lo.end) - 1
					}
				}
			}
		}
		out = append(out, pl)
	}
	for _, e := range doc.objs {
		add(e.ref, e.obj, nil, false)
	}
	for _, e := range doc.stms {
		add(e.ref, nil, e.body, true)
	}
	return out
}

func verifCheckScan(doc *verifDoc, placed []verifPlaced, data []byte, cut int64) {
	fi, err := SequentialScan(bytes.NewReader(data), int64(len(data)))
	complete := 0
	for _, pl := range placed {
		if pl.end <= cut {
			complete++
		}
	}
	verifrt.Cover("scanned")
	if complete == 0 {
		return // nothing is promised
	}
	verifrt.Assert(err == nil, "scan does not fail outright when a complete object is present")
	if err != nil {
		return
	}
	for _, pl := range placed {
		fo := fi.findObject(pl.ref)
		if pl.end <= cut {
			verifrt.Assert(fo != nil, "complete object is listed")
			if fo == nil {
				continue
			}
			verifrt.Assert(fo.ObjStart == pl.start, "listed at its true offset")
			verifrt.Assert(!fo.Broken, "complete object is not marked broken")
			got, err := fi.Read(fo)
			verifrt.Assert(err == nil, "complete object can be read")
			if pl.isStream {
				stm, ok := got.(*Stream)
				verifrt.Assert(ok, "stream is read as a stream")
				if ok {
					raw, err2, _ := verifrt.ReadAll(stm.NewReader(), 4096, 8)
					_ = err2
					verifrt.Assert(int64(len(raw)) == stm.Length(), "raw stream data available")
					// with a direct /Length, or an indirect one whose object
					// is within the available bytes, the data is exactly
					// what was written
					if pl.lenEnd <= cut {
						verifrt.Assert(bytes.Equal(raw, pl.raw), "reading a stream yields the bytes that were written")
					}
				}
			} else {
				verifrt.Assert(verifEqual(pl.obj, got), "reading yields the value that was written")
			}
		} else if pl.start+int64(len("1 0 obj")) <= cut && fo != nil && fo.ObjStart == pl.start {
			verifrt.Assert(fo.Broken, "incomplete trailing object is reported as broken")
		}
	}
}

func verifC20Profile() verifProfile {
	// documents without object streams: PDF < 1.5, or HumanReadable
	cfgs := []verifConfig{{V1_4, false, false}, {V1_7, true, false}}
	if verifrt.Tier() > 0 {
		cfgs = append(cfgs, verifConfig{V1_0, false, true}, verifConfig{V2_0, true, true}, verifConfig{V1_2, true, false})
	}
	return verifProfile{ops: 1 + verifrt.Tier(), streams: true, compressed: false, symbolic: false, safeBodies: true, noBig: true, simple: verifrt.Tier() == 0, configs: cfgs}
}

// Verif_C20_truncation: every prefix of a written file (a crash at any byte).
func Verif_C20_truncation() {
	doc := verifProduce(verifC20Profile())
	if doc == nil {
		return
	}
	// the scan does not index object-stream members: documents without them
	placed := verifPlace(doc)
	cut := int64(verifrt.Len("cut", 0, len(doc.file)))
	verifCheckScan(doc, placed, doc.file[:cut], cut)
}

// Verif_C20_xref_damage: one byte of the cross-reference section or of the
// startxref trailer overwritten.
func Verif_C20_xref_damage() {
	doc := verifProduce(verifC20Profile())
	if doc == nil {
		return
	}
	placed := verifPlace(doc)
	// the cross-reference section starts after the last object
	var last int64
	for _, e := range doc.w.xref {
		if e.Pos > last {
			last = e.Pos
		}
	}
	o, ok := sIndirect(doc.file, last, func(Reference) (int64, bool) { return 0, false })
	verifrt.Assume(ok)
	xstart := o.end
	pos := verifrt.Len("pos", int(xstart), len(doc.file)-1)
	repl := []byte{'x', '\n', '0', ' ', 0xff}[verifrt.Choice("byte", 2+3*verifrt.Tier())]
	data := append([]byte{}, doc.file...)
	data[pos] = repl
	verifCheckScan(doc, placed, data, int64(len(data)))
}

var _ = io.EOF

// Verif_C20_indirect_length: a non-seekable sink and a stream of more than
// 1024 bytes, so that /Length is an indirect object written after the stream;
// the data ends in an end-of-line.  Every prefix from the end of the first
// object on, and the intact file.
func Verif_C20_indirect_length() {
	verifrt.Unwind(100000)
	doc := &verifDoc{version: V1_4}
	var buf bytes.Buffer
	w, err := NewWriter(&buf, V1_4, &WriterOptions{ID: [][]byte{[]byte("0123456789abcdef"), []byte("0123456789abcdef")}})
	verifrt.Assert(err == nil, "NewWriter succeeds")
	if err != nil {
		return
	}
	r1 := w.Alloc()
	o1 := Object(Dict{"A": String("abc")})
	verifrt.Assert(w.Put(r1, o1) == nil, "Put succeeds")
	doc.objs = append(doc.objs, verifExpObj{r1, o1})
	body := make([]byte, 1100)
	for i := range body {
		body[i] = "0 0 m 100 100 l S "[i%18]
	}
	body[len(body)-1] = []byte{'\n', '\r', 'S'}[verifrt.Choice("lastbyte", 3)]
	for k := 0; k < 1+verifrt.Tier(); k++ {
		sr := w.Alloc()
		ws, err := w.OpenStream(sr, Dict{"Kind": Name("S")})
		verifrt.Assert(err == nil, "OpenStream succeeds")
		ws.Write(body)
		verifrt.Assert(ws.Close() == nil, "stream closes")
		doc.stms = append(doc.stms, verifExpStm{sr, body})
	}
	doc.pagesRef = w.Alloc()
	w.GetMeta().Catalog.Pages = doc.pagesRef
	verifrt.Assert(w.Close() == nil, "Close succeeds")
	doc.file = buf.Bytes()
	doc.w = w
	placed := verifPlace(doc)
	verifrt.Assert(len(placed) >= 2 && placed[1].lenEnd > 0, "the stream has an indirect /Length")
	// cuts inside the stream data are covered by Verif_C20_truncation's
	// shapes; here: every cut after the stream's endobj
	lo := int(placed[1].end)
	cut := int64(verifrt.Len("cut", lo, len(doc.file)))
	verifCheckScan(doc, placed, doc.file[:cut], cut)
}
