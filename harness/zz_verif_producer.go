//go:build verif

package pdf

import (
	"bytes"
	"errors"
	"io"

	"seehuhn.de/go/pdf/internal/verifrt"
)

// verifSeekBuf is a seekable in-memory sink.
type verifSeekBuf struct {
	b   []byte
	pos int
}

func (s *verifSeekBuf) Write(p []byte) (int, error) {
	for len(s.b) < s.pos+len(p) {
		s.b = append(s.b, 0)
	}
	copy(s.b[s.pos:], p)
	s.pos += len(p)
	return len(p), nil
}

func (s *verifSeekBuf) Seek(off int64, whence int) (int64, error) {
	switch whence {
	case io.SeekStart:
		s.pos = int(off)
	case io.SeekCurrent:
		s.pos += int(off)
	case io.SeekEnd:
		s.pos = len(s.b) + int(off)
	}
	if s.pos < 0 {
		return 0, errors.New("negative position")
	}
	return int64(s.pos), nil
}

type verifExpObj struct {
	ref Reference
	obj Object
}

type verifExpStm struct {
	ref  Reference
	body []byte
}

// verifDoc is what the producer wrote, for the checks to compare against.
type verifDoc struct {
	version    Version
	human      bool
	seekable   bool
	file       []byte
	objs       []verifExpObj
	stms       []verifExpStm
	unwritten  []Reference
	compressed []Reference // members of object streams
	id         [][]byte
	title      TextString
	pagesRef   Reference
	w          *Writer
}

type verifProfile struct {
	ops        int  // number of program steps
	versions   int  // how many of the versions to case-split over (from the end)
	streams    bool // allow stream operations
	compressed bool // allow WriteCompressed
	symbolic   bool // symbolic payload bytes
	password   string
	safeBodies bool // no stream body with a line-initial object header (C20)
	noBig      bool // no bodies around the 1024-byte threshold
	simple     bool // few stream shapes (properties that are not about streams)
	configs    []verifConfig // if set: case split over these instead of version x human x seekable
}

type verifConfig struct {
	v        Version
	human    bool
	seekable bool
}

// verifConcreteStrings are the string payloads of non-symbolic profiles.
var verifConcreteStrings = []string{"a(b"}

func verifPayload(symbolic bool) Object {
	var s String
	if symbolic {
		s = String(verifrt.Bytes("payload", 1+verifrt.Tier()))
	} else {
		s = String(verifConcreteStrings[verifrt.Choice("paystr", len(verifConcreteStrings))])
	}
	switch verifrt.Choice("objkind", 5) {
	case 0:
		return s
	case 1:
		if !symbolic {
			return Dict{"K": s, "N": Integer(-7)}
		}
		return Dict{"K": s, "N": Integer(verifrt.IntRange("payint", -9, 99))}
	case 2:
		return Array{s, Name("N"), nil, Boolean(true)}
	case 3:
		if !symbolic {
			return Integer(42)
		}
		return Integer(verifrt.IntRange("payint", -9, 99))
	default:
		if !symbolic {
			return Name("A#B")
		}
		return Name(verifrt.String("payname", 1))
	}
}

var verifBodies = [][]byte{
	{},
	[]byte("x"),
	[]byte("a\nendstream\nb"),
	[]byte("endobj\n1 0 obj"),
	[]byte("\nq"),
	[]byte("q\r"),
	[]byte("q\n"),
	[]byte("q\r\n"),
}

func verifBody(symbolic bool, wholeRows int, p verifProfile) []byte {
	var body []byte
	kinds := len(verifBodies) + 2
	if p.noBig {
		kinds--
	}
	if p.simple {
		kinds = 3 // empty, "x", body containing EOL+endstream
	}
	k := verifrt.Choice("bodykind", kinds)
	if p.safeBodies {
		verifrt.Assume(k != 3)
	}
	switch {
	case k < len(verifBodies):
		body = append([]byte{}, verifBodies[k]...)
	case k == len(verifBodies):
		if symbolic {
			body = verifrt.Bytes("body", 3)
		} else {
			body = []byte{0, 0xff, 0x80}
		}
	default:
		// around the 1024-byte buffering threshold of the stream writer
		n := []int{1022, 1023, 1024, 1025}[verifrt.Choice("biglen", 4)]
		body = make([]byte, n)
		for i := range body {
			body[i] = byte('A' + i%23)
		}
		if symbolic {
			body[0] = verifrt.Byte("bodyfirst")
			body[n-1] = verifrt.Byte("bodylast")
		}
	}
	for wholeRows > 1 && len(body)%wholeRows != 0 {
		body = append(body, '.')
	}
	return body
}

// verifFilters returns a filter chain and whether symbolic bytes may flow
// through it without path explosion, plus the row size it needs.
func verifFilters(p verifProfile) (fs []Filter, symbolicOK bool, rows int) {
	n := 8
	if p.simple {
		n = 2
	}
	switch verifrt.Choice("filters", n) {
	case 0:
		return nil, true, 1
	case 1:
		return []Filter{FilterASCIIHex{}}, true, 1
	case 2:
		return []Filter{FilterASCII85{}}, false, 1
	case 3:
		return []Filter{FilterRunLength{}}, false, 1
	case 4:
		return []Filter{FilterLZW{}}, false, 1
	case 5:
		return []Filter{FilterFlate{}}, true, 1
	case 6:
		return []Filter{FilterFlate{Predictor: FlatePredictorPNGUp, Columns: 2}}, true, 2
	default:
		return []Filter{FilterASCIIHex{}, FilterFlate{}}, true, 1
	}
}

// verifProduce runs a solver-chosen write program and returns the document.
func verifProduce(p verifProfile) *verifDoc {
	verifrt.Unwind(4000)
	if p.password != "" {
		verifrt.Unwind(40000) // the revision 6 password hash loops over 64 copies of its input
	}
	doc := &verifDoc{}
	if len(p.configs) > 0 {
		c := p.configs[verifrt.Choice("config", len(p.configs))]
		doc.version, doc.human, doc.seekable = c.v, c.human, c.seekable
	} else if p.versions >= len(verifVersions) && verifrt.Tier() == 0 {
		// quick tier: one version per behaviour class (no ID; LZW only;
		// xref table + RC4; xref/object streams; PDF 2.0)
		doc.version = []Version{V2_0, V1_5, V1_4, V1_2, V1_0}[verifrt.Choice("version", 5)]
	} else {
		doc.version = verifVersions[len(verifVersions)-1-verifrt.Choice("version", p.versions)]
	}
	if len(p.configs) == 0 {
		doc.human = verifrt.Choice("human", 2) == 1
		doc.seekable = verifrt.Choice("seekable", 2) == 1
	}
	doc.id = [][]byte{[]byte("0123456789abcdef"), []byte("fedcba9876543210")}
	opt := &WriterOptions{HumanReadable: doc.human}
	if doc.version >= V1_1 {
		opt.ID = doc.id
	}
	if p.password != "" {
		opt.UserPassword = p.password
	}
	var buf bytes.Buffer
	sb := &verifSeekBuf{}
	var sink io.Writer = &buf
	if doc.seekable {
		sink = sb
	}
	w, err := NewWriter(sink, doc.version, opt)
	verifrt.Assert(err == nil, "NewWriter succeeds")
	if err != nil {
		return nil
	}
	doc.w = w
	for step := 0; step < p.ops; step++ {
		kinds := 2
		if p.compressed {
			kinds = 3
		}
		if p.streams {
			kinds = 4
		}
		// only the last step (every step in the thorough tier) draws from the
		// full menu; earlier steps set the scene with a reduced one
		rich := step == p.ops-1 || verifrt.Tier() > 0
		var op int
		if rich {
			op = verifrt.Choice("op", kinds)
		} else {
			// reduced menu {Put, WriteCompressed}
			op = 0
			if p.compressed && verifrt.Choice("preop", 2) == 1 {
				op = 2
			}
		}
		switch op {
		case 0: // Put
			ref := w.Alloc()
			if verifrt.Tier() > 0 && verifrt.Choice("chosengen", 2) == 1 {
				// a reference of the caller's choosing: same number,
				// generation 3
				ref = NewReference(ref.Number(), 3)
			}
			var obj Object
			if rich {
				obj = verifPayload(p.symbolic)
			} else {
				obj = Dict{"P": String("pre")}
			}
			err := w.Put(ref, obj)
			verifrt.Assert(err == nil, "Put succeeds")
			doc.objs = append(doc.objs, verifExpObj{ref, obj})
		case 1: // allocated, never written
			doc.unwritten = append(doc.unwritten, w.Alloc())
		case 2: // object stream
			r1, r2 := w.Alloc(), w.Alloc()
			o1, o2 := Object(String("pre")), Object(Dict{"X": Integer(1)})
			if rich {
				o1 = verifPayload(p.symbolic)
			}
			err := w.WriteCompressed([]Reference{r1, r2}, o1, o2)
			verifrt.Assert(err == nil, "WriteCompressed succeeds")
			doc.objs = append(doc.objs, verifExpObj{r1, o1}, verifExpObj{r2, o2})
			doc.compressed = append(doc.compressed, r1, r2)
		case 3: // stream, optionally with a Put while it is open
			ref := w.Alloc()
			fs, symOK, rows := verifFilters(p)
			if doc.version < V1_2 {
				// Flate needs PDF 1.2
				for _, f := range fs {
					if _, isFlate := f.(FilterFlate); isFlate {
						verifrt.Assume(false)
					}
				}
			}
			body := verifBody(p.symbolic && symOK, rows, p)
			ws, err := w.OpenStream(ref, Dict{"Kind": Name("S"), "T": String("t(x")}, fs...)
			verifrt.Assert(err == nil, "OpenStream succeeds")
			if err != nil {
				return nil
			}
			split := len(body) / 2
			_, err1 := ws.Write(body[:split])
			var deferred []verifExpObj
			var deferredStm []verifExpStm
			switch verifrt.Choice("putinside", 3) {
			case 1:
				r2 := w.Alloc()
				o2 := Object(Array{Integer(7), String("in")})
				verifrt.Assert(w.Put(r2, o2) == nil, "Put during open stream is deferred")
				deferred = append(deferred, verifExpObj{r2, o2})
			case 2:
				// several deferred objects, one of them a stream object
				r2, r3, r4 := w.Alloc(), w.Alloc(), w.Alloc()
				o2, o4 := Object(Integer(7)), Object(Name("after"))
				inner := []byte("inner stream")
				verifrt.Assert(w.Put(r2, o2) == nil, "Put during open stream is deferred")
				verifrt.Assert(w.Put(r3, NewStream(Dict{"Kind": Name("S"), "T": String("t(x")}, inner)) == nil, "Put of a stream object during open stream is deferred")
				verifrt.Assert(w.Put(r4, o4) == nil, "Put during open stream is deferred")
				deferred = append(deferred, verifExpObj{r2, o2}, verifExpObj{r4, o4})
				deferredStm = append(deferredStm, verifExpStm{r3, inner})
			}
			_, err2 := ws.Write(body[split:])
			err3 := ws.Close()
			verifrt.Assert(err1 == nil && err2 == nil && err3 == nil, "stream writes succeed")
			doc.stms = append(doc.stms, verifExpStm{ref, body})
			doc.objs = append(doc.objs, deferred...)
			doc.stms = append(doc.stms, deferredStm...)
		}
	}
	doc.title = "T(1)"
	w.GetMeta().Info.Title = doc.title
	doc.pagesRef = w.Alloc()
	w.GetMeta().Catalog.Pages = doc.pagesRef
	err = w.Close()
	verifrt.Assert(err == nil, "Close succeeds")
	if err != nil {
		return nil
	}
	if doc.seekable {
		doc.file = sb.b
	} else {
		doc.file = buf.Bytes()
	}
	return doc
}
