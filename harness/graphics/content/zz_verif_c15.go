//go:build verif

package content

import (
	"bytes"
	"io"
	"math"

	"seehuhn.de/go/pdf"
	"seehuhn.de/go/pdf/internal/verifrt"
)

func verifObjEqual(a, b pdf.Object) bool {
	switch x := a.(type) {
	case nil:
		return b == nil
	case pdf.Integer:
		y, ok := b.(pdf.Integer)
		return ok && x == y
	case pdf.Real:
		y, ok := b.(pdf.Real)
		return ok && x == y
	case pdf.Boolean:
		y, ok := b.(pdf.Boolean)
		return ok && x == y
	case pdf.Name:
		y, ok := b.(pdf.Name)
		return ok && x == y
	case pdf.String:
		y, ok := b.(pdf.String)
		return ok && verifrt.Equal(x, y)
	case pdf.Array:
		y, ok := b.(pdf.Array)
		if !ok || len(x) != len(y) {
			return false
		}
		for i := range x {
			if !verifObjEqual(x[i], y[i]) {
				return false
			}
		}
		return true
	case pdf.Dict:
		y, ok := b.(pdf.Dict)
		if !ok || len(x) != len(y) {
			return false
		}
		for k, v := range x {
			w, present := y[k]
			if !present || !verifObjEqual(v, w) {
				return false
			}
		}
		return true
	}
	return false
}

// verifOperand draws one operand of a native type with a symbolic payload.
func verifOperand() pdf.Object {
	switch verifrt.Choice("operand", 7) {
	case 0:
		return pdf.Integer(verifrt.IntRange("int", -9, 99))
	case 1:
		return []pdf.Real{0, 0.5, -12.25, 1e-7, 123456789.125}[verifrt.Choice("real", 5)]
	case 2:
		return pdf.Name(verifrt.String("name", verifrt.Len("namelen", 0, 1)))
	case 3:
		return pdf.String(verifrt.Bytes("str", verifrt.Len("strlen", 0, 2)))
	case 4:
		return pdf.Array{pdf.Integer(1), pdf.String(verifrt.Bytes("astr", 1)), pdf.Real(-2.5)}
	case 5:
		return pdf.Dict{"K": pdf.Name(verifrt.String("dname", 1))}
	default:
		return pdf.Boolean(verifrt.Bool("bool"))
	}
}

var verifOpNames = []OpName{"m", "l", "re", "Tj", "TJ", "cm", "q", "Q", "BT", "ET", "Tf", "gs", "BDC", "EMC", "S", "f*", "'", "\""}

func verifOperator() Operator {
	var op Operator
	k := verifrt.Choice("opname", len(verifOpNames)+1)
	if k < len(verifOpNames) {
		op.Name = verifOpNames[k]
	} else {
		// an unknown operator name of regular characters that is not a number
		b := verifrt.Bytes("unk", 2)
		for _, c := range b {
			verifrt.Assume(c >= 'A' && c <= 'Z' || c >= 'a' && c <= 'z' || c == '*')
		}
		name := OpName(b)
		verifrt.Assume(name != "BI" && name != "ID" && name != "EI")
		op.Name = name
	}
	n := verifrt.Len("nargs", 0, 2)
	for i := 0; i < n; i++ {
		if i > 0 && verifrt.Tier() == 0 {
			// quick tier: the second operand comes from a short menu
			switch verifrt.Choice("operand2", 3) {
			case 0:
				op.Args = append(op.Args, pdf.Integer(7))
			case 1:
				op.Args = append(op.Args, pdf.Name("N"))
			default:
				op.Args = append(op.Args, pdf.String(verifrt.Bytes("str2", 1)))
			}
			continue
		}
		op.Args = append(op.Args, verifOperand())
	}
	return op
}

// verifScan delivers the text in one piece or in short reads of 1 or 2 bytes
// (the end of the buffered window then falls inside every multi-byte
// construct).
func verifScan(data []byte) ([]Operator, error) {
	return verifScanFrom(&verifrt.ChunkReader{Data: data, Chunk: verifChunk, EOF: io.EOF})
}

// verifChunk is drawn once per run by the harness (0 = one piece).
var verifChunk int

func verifDrawChunk() {
	verifChunk = verifrt.Choice("chunk", 2+verifrt.Tier())
}

func verifScanFrom(r io.Reader) ([]Operator, error) {
	st := NewScanner(func() (io.ReadCloser, error) { return io.NopCloser(r), nil })
	it := st.NewIter()
	var out []Operator
	for name, args := range it.All() {
		out = append(out, Operator{Name: name, Args: append([]pdf.Object(nil), args...)})
	}
	return out, it.Err()
}

func verifSameOps(want, got []Operator) bool {
	if len(want) != len(got) {
		return false
	}
	for i := range want {
		if want[i].Name != got[i].Name || len(want[i].Args) != len(got[i].Args) {
			return false
		}
		for k := range want[i].Args {
			if !verifObjEqual(want[i].Args[k], got[i].Args[k]) {
				return false
			}
		}
	}
	return true
}

// Verif_C15_operators: operators with operands of the native types written
// by Operator.Format and scanned again, in one piece and split across two
// streams at the operator boundary.
func Verif_C15_operators() {
	verifDrawChunk()
	n := 2 + verifrt.Tier()
	ops := make([]Operator, n)
	var whole bytes.Buffer
	var parts []([]byte)
	for i := range ops {
		if i > 0 && verifrt.Tier() == 0 {
			// quick tier: the second operator is fixed, what matters is the
			// boundary behind the first one
			ops[i] = Operator{Name: "Tj", Args: []pdf.Object{pdf.String("a")}}
		} else {
			ops[i] = verifOperator()
		}
		var b bytes.Buffer
		verifrt.Assert(ops[i].Format(&b) == nil, "Format succeeds")
		whole.Write(b.Bytes())
		parts = append(parts, b.Bytes())
	}
	got, err := verifScan(whole.Bytes())
	verifrt.Cover("scanned")
	verifrt.Assert(err == nil, "scanner reports no error")
	verifrt.Assert(verifSameOps(ops, got), "operators written are the operators read")
	// split across content streams at operator boundaries
	var pieces []Operator
	for _, p := range parts {
		g, err := verifScan(p)
		verifrt.Assert(err == nil, "scanner reports no error on a piece")
		pieces = append(pieces, g...)
	}
	verifrt.Assert(verifSameOps(ops, pieces), "splitting at operator boundaries does not change the result")
}

// Verif_C15_inline_image: inline image data of symbolic bytes (so that the
// solver places EI, white space and fragments of both).
func Verif_C15_inline_image() {
	verifDrawChunk()
	n := verifrt.Len("n", 0, 5+2*verifrt.Tier())
	data := verifrt.Bytes("data", n)
	dict := pdf.Dict{"W": pdf.Integer(1), "H": pdf.Integer(1), "BPC": pdf.Integer(8), "CS": pdf.Name("G")}
	op := Operator{Name: OpInlineImage, Args: []pdf.Object{dict, pdf.String(data)}}
	follow := Operator{Name: "Q"}
	var b bytes.Buffer
	verifrt.Assert(op.Format(&b) == nil && follow.Format(&b) == nil, "Format succeeds")
	got, err := verifScan(b.Bytes())
	verifrt.Cover("scanned")
	verifrt.Observe("data", data)
	verifrt.Assert(err == nil, "scanner reports no error")
	verifrt.Assert(len(got) == 2 && got[0].Name == OpInlineImage && got[1].Name == "Q", "inline image re-reads as one operator followed by the next")
	if len(got) == 2 && len(got[0].Args) == 2 {
		d, _ := got[0].Args[1].(pdf.String)
		verifrt.Assert(verifrt.Equal(d, data), "inline image data re-reads identically")
	}
}

// Verif_C15_window_position: what is read does not depend on where the text
// sits relative to the scanner's refill boundary (a 512-byte window at the
// pinned commit; 1024 is tried as well).
func Verif_C15_window_position() {
	op := Operator{Name: "gs", Args: []pdf.Object{verifOperand()}}
	if verifrt.Tier() > 0 {
		op = verifOperator()
	}
	follow := Operator{Name: "Q"}
	var b bytes.Buffer
	verifrt.Assert(op.Format(&b) == nil && follow.Format(&b) == nil, "Format succeeds")
	window := []int{512, 1024}[verifrt.Choice("window", 1+verifrt.Tier())]
	j := verifrt.Len("j", 0, b.Len())
	text := make([]byte, window-j, window+b.Len())
	for i := range text {
		text[i] = ' '
	}
	text = append(text, b.Bytes()...)
	got, err := verifScanFrom(bytes.NewReader(text))
	verifrt.Cover("scanned")
	verifrt.Assert(err == nil, "scanner reports no error")
	verifrt.Assert(verifSameOps([]Operator{op, follow}, got), "operators written are the operators read at any window position")
}

// Verif_C15_real_operands: real operands with full-precision decimal
// expansions (p/q for small p and q) and reals around every fourth binary
// exponent in the range the content stream syntax can carry, written by
// Operator.Format and read back.  Concrete per path (floating point is not
// encodable); the solver enumerates the grid.
func Verif_C15_real_operands() {
	var x float64
	if verifrt.Choice("family", 2) == 0 {
		qs := []float64{3, 7, 9, 11, 13, 17, 19, 23, 29, 31}
		p := float64(1 + verifrt.Len("p", 0, 39))
		x = p / qs[verifrt.Choice("q", len(qs))]
		if verifrt.Choice("scaled", 2) == 1 {
			x *= 61.5
		}
	} else {
		e := verifrt.Len("exp", 0, 30)*4 - 40 // 2^-40 .. 2^80
		x = math.Ldexp(1, e)
		switch verifrt.Choice("neighbour", 3) {
		case 1:
			x = math.Nextafter(x, 0)
		case 2:
			x = math.Nextafter(x, math.Inf(1))
		}
	}
	if verifrt.Choice("negative", 2) == 1 {
		x = -x
	}
	op := Operator{Name: "w", Args: []pdf.Object{pdf.Real(x)}}
	var b bytes.Buffer
	verifrt.Assert(op.Format(&b) == nil, "Format succeeds")
	got, err := verifScanFrom(bytes.NewReader(b.Bytes()))
	verifrt.Cover("scanned")
	verifrt.Assert(err == nil && len(got) == 1 && len(got[0].Args) == 1, "one operator with one operand is read")
	if len(got) == 1 && len(got[0].Args) == 1 {
		verifrt.Assert(verifObjEqual(op.Args[0], got[0].Args[0]), "real operand re-reads as the same value")
	}
}
