//go:build verif

package builder

import (
	"bytes"
	"io"

	"seehuhn.de/go/pdf"
	"seehuhn.de/go/pdf/graphics/content"
	"seehuhn.de/go/pdf/internal/verifrt"
)

// Verif_C15_builder_balanced: for every sequence of Builder calls that the
// Builder accepts (no sticky error, Close succeeds), the stream it produced
// re-reads as the same operator names, is accepted operator by operator by a
// fresh State, and is balanced (q/Q, BT/ET).
func Verif_C15_builder_balanced() {
	steps := 4 + 2*verifrt.Tier()
	v := []pdf.Version{pdf.V1_7, pdf.V2_0}[verifrt.Choice("version", 2)]
	b := New(content.Page, nil, v)
	for i := 0; i < steps; i++ {
		switch verifrt.Choice("call", 8) {
		case 0:
			b.PushGraphicsState()
		case 1:
			b.PopGraphicsState()
		case 2:
			b.TextBegin()
		case 3:
			b.TextEnd()
		case 4:
			b.MoveTo(1, 2)
			b.LineTo(3.5, 4)
			b.Stroke()
		case 5:
			b.Rectangle(0, 0, 10, 20.5)
			b.Fill()
		case 6:
			b.SetLineWidth(2)
		case 7:
			b.MoveTo(0, 0)
		}
	}
	if b.Err != nil || b.Close() != nil {
		verifrt.Cover("rejected by the Builder")
		return
	}
	verifrt.Cover("accepted")
	ops, err := b.Harvest()
	verifrt.Assert(err == nil, "Harvest succeeds")
	var buf bytes.Buffer
	for _, op := range ops.Ops {
		verifrt.Assert(op.Format(&buf) == nil, "Format succeeds")
	}
	data := buf.Bytes()
	st := content.NewScanner(func() (io.ReadCloser, error) { return io.NopCloser(bytes.NewReader(data)), nil })
	it := st.NewIter()
	fresh := content.NewState(content.Page, &content.Resources{})
	fresh.Version = v
	i := 0
	depthQ, depthT := 0, 0
	ok := true
	for name, args := range it.All() {
		if i >= len(ops.Ops) || ops.Ops[i].Name != name || len(args) != len(ops.Ops[i].Args) {
			ok = false
		}
		if fresh.ApplyOperator(name, args) != nil {
			ok = false
		}
		switch name {
		case "q":
			depthQ++
		case "Q":
			depthQ--
		case "BT":
			depthT++
		case "ET":
			depthT--
		}
		if depthQ < 0 || depthT < 0 || depthT > 1 {
			ok = false
		}
		i++
	}
	verifrt.Assert(it.Err() == nil && i == len(ops.Ops), "every operator is read back")
	verifrt.Assert(ok, "the re-read sequence is accepted by the state machine")
	verifrt.Assert(depthQ == 0 && depthT == 0 && fresh.CanClose() == nil, "the re-read sequence is balanced")
}
