package main

// Goroutines, mutexes, channels.
//
// Scheduling itself is written in Go in the harness runtime (verifrt: enabled
// sets, mutex table, schedule choices drawn as ordinary solver-decided
// Choices) and is interpreted like any other code, so the native replay runs
// exactly the same logic.  The engine only provides the primitives
// spawn/switchTo/exitTo (host goroutines passing a baton: one interpreted
// goroutine runs at a time) and a happens-before race detector fed by the
// hbRelease/hbAcquire/hbFork calls of that runtime.

import (
	"fmt"
	"go/token"
	"go/types"

	"golang.org/x/tools/go/ssa"
)

const (
	tokenADD = token.ADD
	tokenLSS = token.LSS
	tokenXOR = token.XOR
)

type gctx struct {
	id       int
	resume   chan struct{}
	exited   chan struct{}
	started  bool
	finished bool
	depth    int
}

type vclock map[int]int

func (a vclock) join(b vclock) {
	for k, v := range b {
		if v > a[k] {
			a[k] = v
		}
	}
}

func (a vclock) clone() vclock {
	c := vclock{}
	for k, v := range a {
		c[k] = v
	}
	return c
}

type cellShadow struct {
	wg, wc int // last write: goroutine, clock (wg < 0: none)
	reads  map[int]int
}

type scheduler struct {
	gs      map[int]*gctx
	cur     int
	abort   bool
	pending any // panic of a non-main goroutine, to be re-raised in main
	vc      map[int]vclock
	locks   map[any]vclock
	shadow  map[any]*cellShadow
	races   int
}

func (in *interp) schedInit() *scheduler {
	if in.sched == nil {
		s := &scheduler{gs: map[int]*gctx{}, vc: map[int]vclock{}, locks: map[any]vclock{}, shadow: map[any]*cellShadow{}}
		s.gs[0] = &gctx{id: 0, resume: make(chan struct{}), started: true}
		s.vc[0] = vclock{0: 1}
		in.sched = s
	}
	return in.sched
}

// spawn registers goroutine id running f; it starts when first switched to.
func (in *interp) spawn(id int, f value) {
	s := in.schedInit()
	g := &gctx{id: id, resume: make(chan struct{}), exited: make(chan struct{})}
	s.gs[id] = g
	go func() {
		defer close(g.exited)
		<-g.resume
		if s.abort {
			return
		}
		g.started = true
		defer func() {
			g.finished = true
			r := recover()
			if r == nil {
				return
			}
			if a, ok := r.(abortPath); ok && a.kind == abortStop && s.abort {
				return // torn down
			}
			// hand the panic to the main goroutine
			s.pending = r
			s.abort = true
			s.cur = 0
			s.gs[0].resume <- struct{}{}
		}()
		in.depth = 0
		in.call(nil, 0, f, nil)
	}()
}

func (in *interp) switchTo(from, to int) {
	s := in.sched
	if s == nil {
		panic(in.unsupported("scheduler primitive without a scheduler"))
	}
	gFrom, gTo := s.gs[from], s.gs[to]
	if gTo == nil || gFrom == nil {
		panic(fmt.Sprintf("switchTo: unknown goroutine %d -> %d", from, to))
	}
	gFrom.depth = in.depth
	s.cur = to
	gTo.resume <- struct{}{}
	<-gFrom.resume
	in.depth = gFrom.depth
	in.afterResume(from)
}

func (in *interp) afterResume(id int) {
	s := in.sched
	if s.pending != nil && id == 0 {
		p := s.pending
		s.pending = nil
		panic(p)
	}
	if s.abort {
		panic(abortPath{abortStop, "scheduler teardown"})
	}
}

// exitTo ends the current goroutine and passes the baton on.
func (in *interp) exitTo(to int) {
	s := in.sched
	s.gs[s.cur].finished = true
	s.cur = to
	s.gs[to].resume <- struct{}{}
}

// teardownSched releases every host goroutine of the finished path.
func (in *interp) teardownSched() {
	s := in.sched
	if s == nil {
		return
	}
	s.abort = true
	for id, g := range s.gs {
		if id == 0 || g.exited == nil {
			continue
		}
		select {
		case <-g.exited:
			continue
		default:
		}
		// blocked on its resume channel (never started, or parked)
		select {
		case g.resume <- struct{}{}:
		case <-g.exited:
		}
		<-g.exited
	}
	in.sched = nil
}

// ------------------------------------------------------------ happens-before

func (in *interp) hbRelease(key any) {
	s := in.sched
	if s == nil {
		return
	}
	vc := s.vc[s.cur]
	l := s.locks[key]
	if l == nil {
		l = vclock{}
		s.locks[key] = l
	}
	l.join(vc)
	vc[s.cur]++
}

func (in *interp) hbAcquire(key any) {
	s := in.sched
	if s == nil {
		return
	}
	if l := s.locks[key]; l != nil {
		s.vc[s.cur].join(l)
	}
}

func (in *interp) hbFork(child int) {
	s := in.schedInit()
	p := s.vc[s.cur]
	c := p.clone()
	c[child] = 1
	s.vc[child] = c
	p[s.cur]++
}

// raceCheck is called for every load (write=false) and store (write=true) of
// a heap cell or map while more than one goroutine exists.
func (in *interp) raceCheck(key any, write bool) {
	s := in.sched
	if s == nil || len(s.gs) < 2 || in.inVerifrt > 0 || in.path == nil {
		return
	}
	sh := s.shadow[key]
	if sh == nil {
		sh = &cellShadow{wg: -1}
		s.shadow[key] = sh
	}
	g := s.cur
	vc := s.vc[g]
	racy := false
	other := sh.wg
	if sh.wg >= 0 && sh.wg != g && sh.wc > vc[sh.wg] {
		racy = true
	}
	if write {
		for rg, rc := range sh.reads {
			if rg != g && rc > vc[rg] {
				racy = true
				other = rg
			}
		}
		sh.wg, sh.wc = g, vc[g]
		sh.reads = nil
	} else {
		if sh.reads == nil {
			sh.reads = map[int]int{}
		}
		sh.reads[g] = vc[g]
	}
	if racy && s.races == 0 {
		s.races++
		in.ensureModel()
		where := "?"
		if in.curFn != nil {
			where = in.curFn.String()
			if in.curInstr != nil && in.curInstr.Pos().IsValid() {
				where += " " + in.posString(in.curInstr.Pos())
			}
		}
		in.reportViolation("no data race", fmt.Sprintf("unsynchronised access by goroutine %d (write=%v) conflicts with goroutine %d in %s", g, write, other, where), in.path.model)
	}
}

// ------------------------------------------------------------ plain semantics
// (used outside scheduled harnesses)

func (in *interp) yield(why string) {}

func (in *interp) mutexLock(p *value)         {}
func (in *interp) mutexUnlock(p *value)       {}
func (in *interp) mutexTryLock(p *value) bool { return true }
func (in *interp) wgAdd(p *value, n int)      {}
func (in *interp) wgWait(p *value)            {}

func (in *interp) goStart(fr *frame, instr *ssa.Go, fn value, args []value) {
	panic(in.unsupported("go statement outside verifrt.Go (goroutines are started through the harness runtime)"))
}

func (in *interp) makeChan(n int, elem types.Type) *Chan {
	return &Chan{cap: n, elem: elem}
}

func (in *interp) chanSend(c *Chan, v value) {
	if c == nil {
		panic(in.unsupported("send on nil channel"))
	}
	if c.closed {
		panic(targetPanic{iface{types.Typ[types.String], "send on closed channel"}})
	}
	if len(c.buf) >= c.cap {
		panic(in.unsupported("blocking channel send without scheduler"))
	}
	old := c.buf
	in.logUndo(func() { c.buf = old })
	c.buf = append(append([]value(nil), c.buf...), v)
}

func (in *interp) chanRecv(c *Chan, commaOk bool, elem types.Type) value {
	if c == nil {
		panic(in.unsupported("receive from nil channel"))
	}
	var v value
	ok := true
	if len(c.buf) > 0 {
		old := c.buf
		in.logUndo(func() { c.buf = old })
		v = c.buf[0]
		c.buf = append([]value(nil), c.buf[1:]...)
	} else if c.closed {
		v = zero(elem)
		ok = false
	} else {
		panic(in.unsupported("blocking channel receive without scheduler"))
	}
	if commaOk {
		return tuple{v, ok}
	}
	return v
}

func (in *interp) chanClose(c *Chan) {
	if c.closed {
		panic(targetPanic{iface{types.Typ[types.String], "close of closed channel"}})
	}
	in.logUndo(func() { c.closed = false })
	c.closed = true
}

func (in *interp) doSelect(fr *frame, instr *ssa.Select) value {
	panic(in.unsupported("select statement"))
}

func init() {
	verifrtFns["spawn"] = func(fr *frame, args []value) (value, bool) {
		fr.in.spawn(int(asInt64(args[0])), args[1])
		return done(nil)
	}
	verifrtFns["switchTo"] = func(fr *frame, args []value) (value, bool) {
		fr.in.switchTo(int(asInt64(args[0])), int(asInt64(args[1])))
		return done(nil)
	}
	verifrtFns["exitTo"] = func(fr *frame, args []value) (value, bool) {
		fr.in.exitTo(int(asInt64(args[0])))
		return done(nil)
	}
	hbKey := func(v value) any {
		if it, ok := v.(iface); ok {
			return hbKeyOf(it.v)
		}
		return hbKeyOf(v)
	}
	verifrtFns["hbRelease"] = func(fr *frame, args []value) (value, bool) {
		fr.in.hbRelease(hbKey(args[0]))
		return done(nil)
	}
	verifrtFns["hbAcquire"] = func(fr *frame, args []value) (value, bool) {
		fr.in.hbAcquire(hbKey(args[0]))
		return done(nil)
	}
	verifrtFns["hbFork"] = func(fr *frame, args []value) (value, bool) {
		fr.in.hbFork(int(asInt64(args[0])))
		return done(nil)
	}
	verifrtFns["schedReset"] = func(fr *frame, args []value) (value, bool) {
		fr.in.schedInit()
		return done(nil)
	}
}

func hbKeyOf(v value) any {
	switch x := v.(type) {
	case *value:
		return x
	case *Chan:
		return x
	case *Map:
		return x
	}
	if _, u, ok := unboxInt(v); ok {
		return fmt.Sprintf("g%d", u)
	}
	return fmt.Sprintf("%v", v)
}
