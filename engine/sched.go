package main

// Goroutines, mutexes, channels.  Placeholder single-threaded semantics; the
// cooperative scheduler for C18 replaces these.

import (
	"go/token"
	"go/types"

	"golang.org/x/tools/go/ssa"
)

const (
	tokenADD = token.ADD
	tokenLSS = token.LSS
	tokenXOR = token.XOR
)

type scheduler struct{}

func (in *interp) yield(why string) {}

func (in *interp) mutexLock(p *value)        {}
func (in *interp) mutexUnlock(p *value)      {}
func (in *interp) mutexTryLock(p *value) bool { return true }
func (in *interp) wgAdd(p *value, n int)     {}
func (in *interp) wgWait(p *value)           {}

func (in *interp) goStart(fr *frame, instr *ssa.Go, fn value, args []value) {
	panic(in.unsupported("go statement (no scheduler in this run)"))
}

func (in *interp) makeChan(n int, elem types.Type) *Chan {
	return &Chan{cap: n, elem: elem}
}

func (in *interp) chanSend(c *Chan, v value) {
	if c == nil {
		panic(in.unsupported("send on nil channel"))
	}
	if c.closed {
		panic(targetPanic{iface{types.Typ[types.String], "send on closed channel"}})
	}
	if len(c.buf) >= c.cap {
		panic(in.unsupported("blocking channel send without scheduler"))
	}
	old := c.buf
	in.logUndo(func() { c.buf = old })
	c.buf = append(append([]value(nil), c.buf...), v)
}

func (in *interp) chanRecv(c *Chan, commaOk bool, elem types.Type) value {
	if c == nil {
		panic(in.unsupported("receive from nil channel"))
	}
	var v value
	ok := true
	if len(c.buf) > 0 {
		old := c.buf
		in.logUndo(func() { c.buf = old })
		v = c.buf[0]
		c.buf = append([]value(nil), c.buf[1:]...)
	} else if c.closed {
		v = zero(elem)
		ok = false
	} else {
		panic(in.unsupported("blocking channel receive without scheduler"))
	}
	if commaOk {
		return tuple{v, ok}
	}
	return v
}

func (in *interp) chanClose(c *Chan) {
	if c.closed {
		panic(targetPanic{iface{types.Typ[types.String], "close of closed channel"}})
	}
	in.logUndo(func() { c.closed = false })
	c.closed = true
}

func (in *interp) doSelect(fr *frame, instr *ssa.Select) value {
	panic(in.unsupported("select statement"))
}

