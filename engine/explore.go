package main

// Workers and the per-harness exploration loop.

import (
	"fmt"
	"os"
	"runtime"
	"sort"
	"strings"
	"sync"
	"time"

	"golang.org/x/tools/go/ssa"
)

type runConfig struct {
	tier                  string
	seed                  int64
	workers               int
	solverKind            string
	queryTimeoutMs        int
	unwind                int
	maxInstrs             int64
	maxDepth              int
	maxDecisions          int
	maxValues             int
	maxAlloc              int
	maxViolationsPerLabel int
	maxPaths              int
	harnessBudget         time.Duration
	debugHostPanics       bool
	curJob                *job
	verbose               bool
	noIfConv              bool
	pathBudget            time.Duration
	slicing               bool
	profile               bool
	siteMu                sync.Mutex
	sites                 map[string]int
	fallbackSolver        string
	fallbackTimeoutMs     int
}

func defaultConfig(tier string) *runConfig {
	c := &runConfig{
		tier: tier, workers: min(16, runtime.NumCPU()), solverKind: "z3-new",
		queryTimeoutMs: 400, fallbackSolver: "cvc5", fallbackTimeoutMs: 30000, unwind: 20000, maxInstrs: 150_000_000, maxDepth: 3000,
		maxDecisions: 20000, maxValues: 5000, maxAlloc: 1 << 22, maxViolationsPerLabel: 3,
		maxPaths: 400000, harnessBudget: 150 * time.Second, pathBudget: 60 * time.Second,
	}
	if tier == "thorough" {
		c.queryTimeoutMs = 2000
		c.fallbackTimeoutMs = 120000
		c.harnessBudget = 4 * time.Minute
		c.maxPaths = 5_000_000
	}
	return c
}

type worker struct {
	id int
	in *interp
}

func newWorker(id int, prog *ssa.Program, cfg *runConfig) (*worker, error) {
	in := newInterp(prog, cfg)
	s, err := NewSolver(cfg.solverKind, cfg.queryTimeoutMs)
	if err != nil {
		return nil, err
	}
	s.fallback = cfg.fallbackSolver
	s.fallbackMs = cfg.fallbackTimeoutMs
	in.solver = s
	return &worker{id: id, in: in}, nil
}

// runPath executes the harness once along the work item's prefix.
func (w *worker) runPath(j *job, it *workItem) {
	in := w.in
	// keep the term table and the solver's declarations bounded
	if len(in.tt.all) > 100000 {
		in.tt = newTermTable()
		in.atomCache = nil
		in.consts = map[*ssa.Const]value{}
		if err := in.solver.Restart(); err != nil {
			j.noteNotCovered("solver restart failed: " + err.Error())
			return
		}
	}
	if in.solver.dead {
		if err := in.solver.Restart(); err != nil {
			j.noteNotCovered("solver restart failed: " + err.Error())
			return
		}
	}
	p := &pathState{item: it, unwind: in.cfg.unwind, slicing: in.cfg.slicing, start: time.Now()}
	in.path = p
	in.logging = true
	in.depth = 0
	in.solver.Push()
	status, msg := w.exec(j)
	// summary under the witness model
	var sum pathSummary
	sum.Status, sum.Msg, sum.Decisions = status, msg, len(p.trace)
	if status == "ok" || status == "panic" {
		func() {
			defer func() {
				if r := recover(); r != nil {
					if a, ok := r.(abortPath); ok {
						status, msg = a.kind.String(), a.msg
						sum.Status, sum.Msg = status, msg
						return
					}
					panic(r)
				}
			}()
			in.ensureModel()
			sum.Draws = in.drawsUnder(p.model)
			for _, o := range p.obs {
				sum.Obs = append(sum.Obs, o.name+"="+in.render(o.v, p.model))
			}
			if status == "panic" {
				in.reportViolation("no-panic", msg, p.model)
			}
		}()
	}
	in.teardownSched()
	in.solver.Pop()
	in.rollback()
	in.logging = false
	in.ar.reset()
	in.path = nil

	j.mu.Lock()
	j.paths++
	j.statusCount[status]++
	j.decisions += int64(len(p.trace))
	if len(p.trace) > j.maxDecisions {
		j.maxDecisions = len(p.trace)
	}
	if status == "infeasible" {
		j.infeasibleWhy[msg]++
	}
	switch status {
	case "ok", "panic", "infeasible", "stop":
	default:
		key := status + ": " + msg
		j.notCovered[key]++
	}
	for c := range p.covers {
		j.covers[c]++
	}
	if status == "ok" || status == "panic" {
		if len(j.samples) < 64 {
			j.samples = append(j.samples, sum)
		} else if k := int(j.rnd() % uint64(j.paths)); k < 64 {
			j.samples[k] = sum
		}
	}
	j.mu.Unlock()
}

func (j *job) rnd() uint64 {
	j.rng ^= j.rng << 13
	j.rng ^= j.rng >> 7
	j.rng ^= j.rng << 17
	return j.rng
}

func (w *worker) exec(j *job) (status, msg string) {
	in := w.in
	defer func() {
		r := recover()
		if r == nil {
			return
		}
		switch r := r.(type) {
		case abortPath:
			status, msg = r.kind.String(), r.msg
		case targetPanic:
			status, msg = "panic", "panic: "+in.panicString(r.v)
		case runtimePanic:
			status, msg = "panic", r.Error()
		case runtime.Error:
			buf := make([]byte, 1<<13)
			n := runtime.Stack(buf, false)
			status, msg = "panic", "host runtime error: "+r.Error()
			if in.cfg.verbose {
				fmt.Fprintf(os.Stderr, "host runtime error: %v\n%s\n", r, buf[:n])
			}
		default:
			status, msg = "unsupported", fmt.Sprintf("interpreter panic: %v", r)
			if in.cfg.verbose {
				buf := make([]byte, 1<<13)
				n := runtime.Stack(buf, false)
				fmt.Fprintf(os.Stderr, "interpreter panic: %v\n%s\n", r, buf[:n])
			}
		}
	}()
	in.call(nil, 0, j.fn, nil)
	if in.path.pos < len(in.path.item.prefix) {
		return "unsupported", fmt.Sprintf("replay divergence: path ended after %d of %d prefix decisions", in.path.pos, len(in.path.item.prefix))
	}
	return "ok", ""
}

func (in *interp) panicString(v value) string {
	if it, ok := v.(iface); ok {
		if it.t == nil {
			return "nil"
		}
		if f := in.findMethod(it.t, "Error"); f != nil {
			var s value
			func() {
				defer func() { recover() }()
				s = in.call(nil, 0, f, []value{it.v})
			}()
			if hs, ok := s.(string); ok {
				return hs
			}
		}
		return toString(it.v)
	}
	return toString(v)
}

// runJob explores one harness to completion (or budget).
func runJob(j *job, workers []*worker, cfg *runConfig) {
	cfg.curJob = j
	// fresh term tables and solver processes per harness: declarations of
	// earlier harnesses would only slow the solver down
	for _, w := range workers {
		in := w.in
		in.tt = newTermTable()
		in.atomCache = nil
		in.consts = map[*ssa.Const]value{}
		if in.solver.stats.Queries > 0 {
			in.solver.Restart()
		}
	}
	j.rng = uint64(cfg.seed)*2654435761 + 88172645463325252
	deadline := time.Now().Add(cfg.harnessBudget)
	j.deadline = deadline.Add(cfg.harnessBudget / 4)
	var wg sync.WaitGroup
	for _, w := range workers {
		wg.Add(1)
		go func(w *worker) {
			defer wg.Done()
			for {
				it := j.pop()
				if it == nil {
					return
				}
				if time.Now().After(deadline) || j.paths >= cfg.maxPaths {
					j.mu.Lock()
					if !j.stopped {
						j.stopped = true
						j.notCovered[fmt.Sprintf("exploration budget exhausted with %d pending prefixes", len(j.work)+1)]++
					}
					j.mu.Unlock()
					j.done()
					j.cond.Broadcast()
					return
				}
				w.runPath(j, it)
				j.done()
			}
		}(w)
	}
	wg.Wait()
	for _, w := range workers {
		for f := range w.in.covered {
			if f.Pkg != nil && strings.HasPrefix(f.Pkg.Pkg.Path(), repoModule) && f.Pkg.Pkg.Path() != verifrtPath {
				j.funcs[f.String()] = true
			}
		}
		w.in.covered = map[*ssa.Function]bool{}
	}
}

func sortedKeys[V any](m map[string]V) []string {
	ks := make([]string, 0, len(m))
	for k := range m {
		ks = append(ks, k)
	}
	sort.Strings(ks)
	return ks
}

func (c *runConfig) noteSite(s string) {
	c.siteMu.Lock()
	if c.sites == nil {
		c.sites = map[string]int{}
	}
	c.sites[s]++
	c.siteMu.Unlock()
}

func (c *runConfig) dumpSites() {
	type kv struct {
		k string
		v int
	}
	var l []kv
	for k, v := range c.sites {
		l = append(l, kv{k, v})
	}
	sort.Slice(l, func(i, j int) bool { return l[i].v > l[j].v })
	for i, e := range l {
		if i >= 25 {
			break
		}
		fmt.Printf("    %8d %s\n", e.v, e.k)
	}
}
