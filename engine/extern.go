package main

// Externals: harness API (verifrt), and models / native bridges for standard
// library functions that cannot be interpreted from source (assembly,
// unsafe, reflection) or that need a symbolic-aware model.

import (
	"math/bits"
	"fmt"
	"go/types"
	"math"
	"os"
	"path/filepath"
	"regexp"
	"strconv"
	"strings"
	"unicode"

	"golang.org/x/tools/go/ssa"
)

// externalFn returns (result, handled).  handled == false falls back to
// interpreting the function body.
type externalFn func(fr *frame, args []value) (value, bool)

var externals = map[string]externalFn{}

// prefixExternals match instantiated generic names by prefix.
var prefixExternals = []struct {
	prefix string
	fn     externalFn
}{}

var nativeInitPackages = map[string]bool{}

func (in *interp) nativeInit(pkg *ssa.Package) {}

const verifrtPath = "seehuhn.de/go/pdf/internal/verifrt"

func findExternal(fn *ssa.Function) externalFn {
	name := fn.String()
	if e, ok := externals[name]; ok {
		return e
	}
	if o := fn.Origin(); o != nil {
		if e, ok := externals[o.String()]; ok {
			return e
		}
	}
	for _, p := range prefixExternals {
		if strings.HasPrefix(name, p.prefix) {
			return p.fn
		}
	}
	if fn.Pkg != nil && fn.Pkg.Pkg.Path() == verifrtPath {
		if e, ok := verifrtFns[fn.Name()]; ok {
			return e
		}
	}
	return nil
}

func done(v value) (value, bool) { return v, true }

var notHandled = func() (value, bool) { return nil, false }

func allConcrete(args []value) bool {
	for _, a := range args {
		switch x := a.(type) {
		case Sym, *SymStr, symPtr:
			return false
		case []value:
			for _, e := range x {
				if isSym(e) {
					return false
				}
			}
		}
	}
	return true
}

func hostBytes(v value) ([]byte, bool) {
	var src []value
	switch x := v.(type) {
	case string:
		return []byte(x), true
	case *SymStr:
		return nil, false
	case []value:
		src = x
	default:
		return nil, false
	}
	out := make([]byte, len(src))
	for i, e := range src {
		b, ok := e.(uint8)
		if !ok {
			return nil, false
		}
		out[i] = b
	}
	return out, true
}

func fromHostBytes(b []byte) []value {
	if b == nil {
		return nil
	}
	out := make([]value, len(b))
	for i, c := range b {
		out[i] = c
	}
	return out
}

func argStr(v value) (string, bool) {
	s, ok := v.(string)
	return s, ok
}

// ---------------------------------------------------------------- verifrt

var verifrtFns = map[string]externalFn{}

func (in *interp) newDraw(name, kind string, w uint8, k types.BasicKind) value {
	p := in.path
	if p == nil {
		panic(in.unsupported("nondet outside a path"))
	}
	if p.drawSeq == nil {
		p.drawSeq = map[string]int{}
	}
	seq := p.drawSeq[name]
	p.drawSeq[name] = seq + 1
	vn := fmt.Sprintf("%s#%d", name, seq)
	t := in.tt.Var(fmt.Sprintf("%s/%d", vn, w), w)
	p.atoms = append(p.atoms, t)
	p.draws = append(p.draws, draw{Name: vn, Kind: kind, term: t})
	return Sym{t, k}
}

// fixedDraw returns a concrete byte recorded as a draw: deterministic
// pseudo-random values (one arbitrary but fixed choice, not a fork).
func (in *interp) fixedDraw(name string) value {
	p := in.path
	if p == nil {
		panic(in.unsupported("nondet outside a path"))
	}
	if p.drawSeq == nil {
		p.drawSeq = map[string]int{}
	}
	seq := p.drawSeq[name]
	p.drawSeq[name] = seq + 1
	h := uint64(seq+1)*0x9E3779B97F4A7C15 ^ uint64(in.cfg.seed)*0xBF58476D1CE4E5B9
	for _, c := range []byte(name) {
		h = (h ^ uint64(c)) * 0x100000001B3
	}
	h ^= h >> 29
	v := uint8(h >> 17)
	p.draws = append(p.draws, draw{Name: fmt.Sprintf("%s#%d", name, seq), Kind: "u8", isC: true, conc: uint64(v)})
	return v
}

func init() {
	name := func(args []value, i int) string {
		s, _ := args[i].(string)
		return s
	}
	verifrtFns["Byte"] = func(fr *frame, args []value) (value, bool) {
		return done(fr.in.newDraw(name(args, 0), "u8", 8, types.Uint8))
	}
	verifrtFns["Uint16"] = func(fr *frame, args []value) (value, bool) {
		return done(fr.in.newDraw(name(args, 0), "u16", 16, types.Uint16))
	}
	verifrtFns["Uint32"] = func(fr *frame, args []value) (value, bool) {
		return done(fr.in.newDraw(name(args, 0), "u32", 32, types.Uint32))
	}
	verifrtFns["Uint64"] = func(fr *frame, args []value) (value, bool) {
		return done(fr.in.newDraw(name(args, 0), "u64", 64, types.Uint64))
	}
	verifrtFns["Int64"] = func(fr *frame, args []value) (value, bool) {
		return done(fr.in.newDraw(name(args, 0), "i64", 64, types.Int64))
	}
	verifrtFns["Int32"] = func(fr *frame, args []value) (value, bool) {
		return done(fr.in.newDraw(name(args, 0), "i32", 32, types.Int32))
	}
	verifrtFns["Int"] = func(fr *frame, args []value) (value, bool) {
		return done(fr.in.newDraw(name(args, 0), "int", 64, types.Int))
	}
	verifrtFns["Bool"] = func(fr *frame, args []value) (value, bool) {
		in := fr.in
		v := in.newDraw(name(args, 0), "bool", 8, types.Uint8).(Sym)
		// a bool is drawn as a byte constrained to {0,1}
		in.assumeCond(Sym{in.tt.Cmp(OpUle, v.T, in.tt.Const(8, 1)), types.Bool})
		return done(in.symBool(in.tt.Cmp(OpEq, v.T, in.tt.Const(8, 1))))
	}
	verifrtFns["Bytes"] = func(fr *frame, args []value) (value, bool) {
		n := int(asInt64(args[1]))
		out := make([]value, n)
		for i := range out {
			out[i] = fr.in.newDraw(name(args, 0), "u8", 8, types.Uint8)
		}
		return done(out)
	}
	verifrtFns["FixedBytes"] = func(fr *frame, args []value) (value, bool) {
		n := int(asInt64(args[1]))
		out := make([]value, n)
		for i := range out {
			out[i] = fr.in.fixedDraw(name(args, 0))
		}
		return done(out)
	}
	verifrtFns["String"] = func(fr *frame, args []value) (value, bool) {
		n := int(asInt64(args[1]))
		out := make([]value, n)
		for i := range out {
			out[i] = fr.in.newDraw(name(args, 0), "u8", 8, types.Uint8)
		}
		if n == 0 {
			return done("")
		}
		return done(&SymStr{B: out})
	}
	rangeDraw := func(fr *frame, args []value) Sym {
		in := fr.in
		lo, hi := asInt64(args[1]), asInt64(args[2])
		tt := in.tt
		// non-negative ranges are drawn from the narrowest width that holds
		// hi, so that the term carries its own upper bound
		w := uint8(64)
		if lo >= 0 {
			switch {
			case hi < 1<<8:
				w = 8
			case hi < 1<<16:
				w = 16
			case hi < 1<<32:
				w = 32
			}
		}
		p := in.path
		if p.drawSeq == nil {
			p.drawSeq = map[string]int{}
		}
		nm := name(args, 0)
		seq := p.drawSeq[nm]
		p.drawSeq[nm] = seq + 1
		vn := fmt.Sprintf("%s#%d", nm, seq)
		raw := tt.Var(fmt.Sprintf("%s/%d", vn, w), w)
		p.atoms = append(p.atoms, raw)
		t := tt.Zext(raw, 64)
		p.draws = append(p.draws, draw{Name: vn, Kind: "int", term: t})
		c := tt.And(tt.Cmp(OpSle, tt.Const(64, uint64(lo)), t), tt.Cmp(OpSle, t, tt.Const(64, uint64(hi))))
		in.assumeCond(in.symBool(c))
		return Sym{t, types.Int}
	}
	verifrtFns["IntRange"] = func(fr *frame, args []value) (value, bool) {
		return done(rangeDraw(fr, args))
	}
	verifrtFns["Len"] = func(fr *frame, args []value) (value, bool) {
		v := rangeDraw(fr, args)
		return done(int(fr.in.concretize(v.T, "Len:"+name(args, 0))))
	}
	verifrtFns["LenLayout"] = func(fr *frame, args []value) (value, bool) {
		v := rangeDraw(fr, []value{"layout:" + name(args, 0), args[1], args[2]})
		return done(int(fr.in.concretize(v.T, "LenLayout:"+name(args, 0))))
	}
	verifrtFns["Choice"] = func(fr *frame, args []value) (value, bool) {
		k := asInt64(args[1])
		v := rangeDraw(fr, []value{args[0], 0, int(k - 1)})
		return done(int(fr.in.concretize(v.T, "Choice:"+name(args, 0))))
	}
	verifrtFns["Assume"] = func(fr *frame, args []value) (value, bool) {
		fr.in.assumeCond(args[0])
		return done(nil)
	}
	verifrtFns["Assert"] = func(fr *frame, args []value) (value, bool) {
		fr.in.checkAssert(args[0], name(args, 1))
		return done(nil)
	}
	verifrtFns["Cover"] = func(fr *frame, args []value) (value, bool) {
		p := fr.in.path
		if p.covers == nil {
			p.covers = map[string]bool{}
		}
		p.covers[name(args, 0)] = true
		return done(nil)
	}
	verifrtFns["Observe"] = func(fr *frame, args []value) (value, bool) {
		p := fr.in.path
		p.obs = append(p.obs, observation{name(args, 0), args[1]})
		return done(nil)
	}
	verifrtFns["Unwind"] = func(fr *frame, args []value) (value, bool) {
		fr.in.path.unwind = int(asInt64(args[0]))
		return done(nil)
	}
	verifrtFns["TerminationBound"] = func(fr *frame, args []value) (value, bool) {
		fr.in.path.unwind = int(asInt64(args[0]))
		fr.in.path.unwindViolates = true
		return done(nil)
	}
	verifrtFns["MapOrderAll"] = func(fr *frame, args []value) (value, bool) {
		fr.in.path.mapOrderAll = true
		fr.in.job().mapOrder = true
		return done(nil)
	}
	verifrtFns["AllocLimit"] = func(fr *frame, args []value) (value, bool) {
		fr.in.path.allocLimit = asInt64(args[0])
		return done(nil)
	}
	verifrtFns["Tier"] = func(fr *frame, args []value) (value, bool) {
		if fr.in.cfg.tier == "thorough" {
			return done(1)
		}
		return done(0)
	}
	verifrtFns["Symbolic"] = func(fr *frame, args []value) (value, bool) {
		return done(true)
	}
	verifrtFns["Concretize"] = func(fr *frame, args []value) (value, bool) {
		return done(int(fr.in.concreteInt(args[0], "Concretize")))
	}
	verifrtFns["ConcretizeByte"] = func(fr *frame, args []value) (value, bool) {
		if s, ok := args[0].(Sym); ok {
			return done(uint8(fr.in.concretize(s.T, "ConcretizeByte")))
		}
		return done(args[0])
	}
}

// render prints an observed value canonically under a model.
func (in *interp) render(v value, m *Model) string {
	switch x := v.(type) {
	case nil:
		return "nil"
	case bool:
		return strconv.FormatBool(x)
	case string:
		return strconv.Quote(x)
	case *SymStr:
		b := make([]byte, len(x.B))
		for i, e := range x.B {
			b[i] = in.evalByte(e, m)
		}
		return strconv.Quote(string(b))
	case Sym:
		u := m.Eval(x.T)
		if x.K == types.Bool {
			return strconv.FormatBool(u != 0)
		}
		if kindSigned(x.K) {
			return strconv.FormatInt(sext64(u, x.T.W), 10)
		}
		return strconv.FormatUint(u, 10)
	case float64:
		return strconv.FormatFloat(x, 'g', -1, 64)
	case float32:
		return strconv.FormatFloat(float64(x), 'g', -1, 32)
	case iface:
		if x.t == nil {
			return "nil"
		}
		return in.render(x.v, m)
	case []value:
		if x == nil {
			return "x:"
		}
		var sb strings.Builder
		sb.WriteString("x:")
		for _, e := range x {
			switch e.(type) {
			case uint8, Sym:
				fmt.Fprintf(&sb, "%02x", in.evalByte(e, m))
			default:
				sb.WriteString("[" + in.render(e, m) + "]")
			}
		}
		return sb.String()
	}
	if k, u, ok := unboxInt(v); ok {
		if kindSigned(k) {
			return strconv.FormatInt(int64(u), 10)
		}
		return strconv.FormatUint(u, 10)
	}
	return fmt.Sprintf("<%T>", v)
}

func (in *interp) evalByte(e value, m *Model) byte {
	switch b := e.(type) {
	case uint8:
		return b
	case Sym:
		return byte(m.Eval(b.T))
	}
	return 0
}

// ---------------------------------------------------------------- helpers

func cellOf(v value) *value {
	p, _ := v.(*value)
	return p
}

// lastField returns the address of the last field of the struct at p.
func lastField(p *value) *value {
	s := (*p).(structure)
	return &s[len(s)-1]
}

func (in *interp) bytesEqTerm(a, b []value) value {
	if len(a) != len(b) {
		return false
	}
	res := in.tt.True
	for i := range a {
		x, _ := in.lift(a[i])
		y, _ := in.lift(b[i])
		res = in.tt.And(res, in.tt.Cmp(OpEq, x, y))
		if res == in.tt.False {
			return false
		}
	}
	return in.symBool(res)
}

func (in *interp) indexByte(b []value, c value) int {
	for i, e := range b {
		if in.truth(in.equals(types.Typ[types.Uint8], e, c)) {
			return i
		}
	}
	return -1
}

func (in *interp) indexBytes(a, b []value) int {
	n := len(b)
	for i := 0; i+n <= len(a); i++ {
		if in.truth(in.bytesEqTerm(a[i:i+n], b)) {
			return i
		}
	}
	return -1
}

func (in *interp) compareBytes(a, b []value) int {
	n := min(len(a), len(b))
	for i := 0; i < n; i++ {
		if in.truth(in.equals(types.Typ[types.Uint8], a[i], b[i])) {
			continue
		}
		if in.truth(in.binop(tokenLSS, types.Typ[types.Uint8], a[i], b[i])) {
			return -1
		}
		return 1
	}
	switch {
	case len(a) < len(b):
		return -1
	case len(a) > len(b):
		return 1
	}
	return 0
}

func bytesArg(v value) []value {
	switch x := v.(type) {
	case []value:
		return x
	case string, *SymStr:
		return strBytes(x)
	}
	panic(fmt.Sprintf("bytesArg: %T", v))
}

func init() {
	// ---------------- internal/bytealg
	externals["internal/bytealg.IndexByte"] = func(fr *frame, args []value) (value, bool) {
		return done(fr.in.indexByte(bytesArg(args[0]), args[1]))
	}
	externals["internal/bytealg.IndexByteString"] = externals["internal/bytealg.IndexByte"]
	externals["internal/bytealg.LastIndexByte"] = func(fr *frame, args []value) (value, bool) {
		b := bytesArg(args[0])
		for i := len(b) - 1; i >= 0; i-- {
			if fr.in.truth(fr.in.equals(types.Typ[types.Uint8], b[i], args[1])) {
				return done(i)
			}
		}
		return done(-1)
	}
	externals["internal/bytealg.LastIndexByteString"] = externals["internal/bytealg.LastIndexByte"]
	externals["internal/bytealg.Equal"] = func(fr *frame, args []value) (value, bool) {
		return done(fr.in.bytesEqTerm(bytesArg(args[0]), bytesArg(args[1])))
	}
	externals["bytes.Equal"] = externals["internal/bytealg.Equal"]
	externals["internal/bytealg.Compare"] = func(fr *frame, args []value) (value, bool) {
		return done(fr.in.compareBytes(bytesArg(args[0]), bytesArg(args[1])))
	}
	externals["bytes.Compare"] = externals["internal/bytealg.Compare"]
	externals["internal/bytealg.CompareString"] = externals["internal/bytealg.Compare"]
	externals["strings.Compare"] = externals["internal/bytealg.Compare"]
	externals["cmp.Compare[string]"] = externals["internal/bytealg.Compare"]
	externals["internal/bytealg.Count"] = func(fr *frame, args []value) (value, bool) {
		n := 0
		for _, e := range bytesArg(args[0]) {
			if fr.in.truth(fr.in.equals(types.Typ[types.Uint8], e, args[1])) {
				n++
			}
		}
		return done(n)
	}
	externals["internal/bytealg.CountString"] = externals["internal/bytealg.Count"]
	externals["internal/bytealg.Index"] = func(fr *frame, args []value) (value, bool) {
		return done(fr.in.indexBytes(bytesArg(args[0]), bytesArg(args[1])))
	}
	externals["internal/bytealg.IndexString"] = externals["internal/bytealg.Index"]
	externals["bytes.Index"] = externals["internal/bytealg.Index"]
	externals["strings.Index"] = externals["internal/bytealg.Index"]
	externals["internal/bytealg.Cutover"] = func(fr *frame, args []value) (value, bool) { return done(4) }
	externals["internal/bytealg.MakeNoZero"] = func(fr *frame, args []value) (value, bool) {
		n := int(fr.in.concreteInt(args[0], "MakeNoZero"))
		s := make([]value, n)
		for i := range s {
			s[i] = uint8(0)
		}
		return done(s)
	}
	externals["internal/stringslite.Index"] = externals["internal/bytealg.Index"]
	externals["internal/stringslite.IndexByte"] = externals["internal/bytealg.IndexByte"]
	externals["strings.IndexByte"] = externals["internal/bytealg.IndexByte"]
	externals["bytes.IndexByte"] = externals["internal/bytealg.IndexByte"]

	// ---------------- runtime / abi / unsafe helpers
	nop := func(fr *frame, args []value) (value, bool) { return done(nil) }
	ident := func(fr *frame, args []value) (value, bool) { return done(args[0]) }
	externals["internal/abi.NoEscape"] = ident
	externals["internal/abi.Escape"] = ident
	externals["runtime.KeepAlive"] = nop
	externals["runtime.SetFinalizer"] = nop
	externals["runtime.GC"] = nop
	externals["runtime.Gosched"] = func(fr *frame, args []value) (value, bool) {
		fr.in.yield("gosched")
		return done(nil)
	}
	externals["runtime.GOMAXPROCS"] = func(fr *frame, args []value) (value, bool) { return done(16) }
	externals["runtime.NumCPU"] = func(fr *frame, args []value) (value, bool) { return done(16) }
	externals["internal/race.Acquire"] = nop
	externals["internal/race.Release"] = nop
	externals["internal/race.ReleaseMerge"] = nop
	externals["internal/race.Disable"] = nop
	externals["internal/race.Enable"] = nop
	externals["internal/race.Read"] = nop
	externals["internal/race.Write"] = nop
	externals["internal/race.ReadRange"] = nop
	externals["internal/race.WriteRange"] = nop
	externals["internal/race.Errors"] = func(fr *frame, args []value) (value, bool) { return done(0) }
	externals["(*strings.Builder).copyCheck"] = nop
	externals["internal/godebug.(*Setting).Value"] = func(fr *frame, args []value) (value, bool) { return done("") }
	externals["(*internal/godebug.Setting).Value"] = externals["internal/godebug.(*Setting).Value"]
	externals["(*internal/godebug.Setting).IncNonDefault"] = nop
	externals["internal/godebug.New"] = func(fr *frame, args []value) (value, bool) {
		var c value = structure{}
		return done(&c)
	}

	// ---------------- sync (single-threaded semantics unless a scheduler runs)
	externals["(*sync.Mutex).Lock"] = func(fr *frame, args []value) (value, bool) {
		fr.in.mutexLock(cellOf(args[0]))
		return done(nil)
	}
	externals["(*sync.Mutex).Unlock"] = func(fr *frame, args []value) (value, bool) {
		fr.in.mutexUnlock(cellOf(args[0]))
		return done(nil)
	}
	externals["(*sync.Mutex).TryLock"] = func(fr *frame, args []value) (value, bool) {
		return done(fr.in.mutexTryLock(cellOf(args[0])))
	}
	externals["(*sync.RWMutex).Lock"] = externals["(*sync.Mutex).Lock"]
	externals["(*sync.RWMutex).Unlock"] = externals["(*sync.Mutex).Unlock"]
	externals["(*sync.RWMutex).RLock"] = externals["(*sync.Mutex).Lock"]
	externals["(*sync.RWMutex).RUnlock"] = externals["(*sync.Mutex).Unlock"]
	// sync.Pool keeps what is Put and hands it out again (last in, first
	// out), which is what makes state left in a pooled object visible to the
	// next user; the real pool may also drop items, in which case New runs,
	// as it does here when the pool is empty.
	externals["(*sync.Pool).Get"] = func(fr *frame, args []value) (value, bool) {
		in := fr.in
		p := cellOf(args[0])
		if items := in.pools[p]; len(items) > 0 {
			v := items[len(items)-1]
			in.logUndo(func() { in.pools[p] = items })
			in.pools[p] = items[:len(items)-1:len(items)-1]
			in.hbAcquire(p)
			return done(v)
		}
		s := (*p).(structure)
		// the New field is the last exported field
		newFn := s[len(s)-1]
		if funcIsNil(newFn) {
			return done(iface{})
		}
		return done(in.call(fr, 0, newFn, nil))
	}
	externals["(*sync.Pool).Put"] = func(fr *frame, args []value) (value, bool) {
		in := fr.in
		p := cellOf(args[0])
		if in.pools == nil {
			in.pools = map[*value][]value{}
		}
		old := in.pools[p]
		in.logUndo(func() { in.pools[p] = old })
		in.pools[p] = append(old[:len(old):len(old)], args[1])
		in.hbRelease(p)
		return done(nil)
	}
	externals["(*sync.WaitGroup).Add"] = func(fr *frame, args []value) (value, bool) {
		fr.in.wgAdd(cellOf(args[0]), int(asInt64(args[1])))
		return done(nil)
	}
	externals["(*sync.WaitGroup).Done"] = func(fr *frame, args []value) (value, bool) {
		fr.in.wgAdd(cellOf(args[0]), -1)
		return done(nil)
	}
	externals["(*sync.WaitGroup).Wait"] = func(fr *frame, args []value) (value, bool) {
		fr.in.wgWait(cellOf(args[0]))
		return done(nil)
	}

	// ---------------- sync/atomic
	atomicLoad := func(fr *frame, args []value) (value, bool) {
		fr.in.yield("atomic")
		return done(*lastField(cellOf(args[0])))
	}
	atomicStore := func(fr *frame, args []value) (value, bool) {
		fr.in.yield("atomic")
		fr.in.setCell(lastField(cellOf(args[0])), args[1])
		return done(nil)
	}
	atomicAdd := func(fr *frame, args []value) (value, bool) {
		fr.in.yield("atomic")
		p := lastField(cellOf(args[0]))
		nv := fr.in.binop(tokenADD, nil, *p, args[1])
		fr.in.setCell(p, nv)
		return done(nv)
	}
	atomicSwap := func(fr *frame, args []value) (value, bool) {
		fr.in.yield("atomic")
		p := lastField(cellOf(args[0]))
		old := *p
		fr.in.setCell(p, args[1])
		return done(old)
	}
	atomicCAS := func(fr *frame, args []value) (value, bool) {
		fr.in.yield("atomic")
		p := lastField(cellOf(args[0]))
		if fr.in.truth(fr.in.equals(nil, *p, args[1])) {
			fr.in.setCell(p, args[2])
			return done(true)
		}
		return done(false)
	}
	for _, t := range []string{"Int32", "Int64", "Uint32", "Uint64", "Uintptr", "Bool"} {
		externals["(*sync/atomic."+t+").Load"] = atomicLoad
		externals["(*sync/atomic."+t+").Store"] = atomicStore
		externals["(*sync/atomic."+t+").Add"] = atomicAdd
		externals["(*sync/atomic."+t+").Swap"] = atomicSwap
		externals["(*sync/atomic."+t+").CompareAndSwap"] = atomicCAS
	}
	// atomic.Bool stores a uint32
	externals["(*sync/atomic.Bool).Load"] = func(fr *frame, args []value) (value, bool) {
		fr.in.yield("atomic")
		return done(asInt64(*lastField(cellOf(args[0]))) != 0)
	}
	externals["(*sync/atomic.Bool).Store"] = func(fr *frame, args []value) (value, bool) {
		fr.in.yield("atomic")
		v := uint32(0)
		if args[1].(bool) {
			v = 1
		}
		fr.in.setCell(lastField(cellOf(args[0])), v)
		return done(nil)
	}
	prefixExternals = append(prefixExternals,
		struct {
			prefix string
			fn     externalFn
		}{"(*sync/atomic.Pointer[", func(fr *frame, args []value) (value, bool) {
			fr.in.yield("atomic")
			p := lastField(cellOf(args[0]))
			switch fr.fn.Name() {
			case "Load":
				if *p == nil {
					return done((*value)(nil))
				}
				return done(*p)
			case "Store":
				fr.in.setCell(p, args[1])
				return done(nil)
			case "Swap":
				old := *p
				fr.in.setCell(p, args[1])
				if old == nil {
					old = (*value)(nil)
				}
				return done(old)
			case "CompareAndSwap":
				cur := *p
				if cur == nil {
					cur = (*value)(nil)
				}
				if cur == args[1] {
					fr.in.setCell(p, args[2])
					return done(true)
				}
				return done(false)
			}
			return nil, false
		}})
	rawLoad := func(fr *frame, args []value) (value, bool) {
		fr.in.yield("atomic")
		return done(*cellOf(args[0]))
	}
	rawStore := func(fr *frame, args []value) (value, bool) {
		fr.in.yield("atomic")
		fr.in.setCell(cellOf(args[0]), args[1])
		return done(nil)
	}
	rawAdd := func(fr *frame, args []value) (value, bool) {
		fr.in.yield("atomic")
		p := cellOf(args[0])
		nv := fr.in.binop(tokenADD, nil, *p, args[1])
		fr.in.setCell(p, nv)
		return done(nv)
	}
	rawCAS := func(fr *frame, args []value) (value, bool) {
		fr.in.yield("atomic")
		p := cellOf(args[0])
		if fr.in.truth(fr.in.equals(nil, *p, args[1])) {
			fr.in.setCell(p, args[2])
			return done(true)
		}
		return done(false)
	}
	for _, t := range []string{"Int32", "Int64", "Uint32", "Uint64", "Uintptr", "Pointer"} {
		externals["sync/atomic.Load"+t] = rawLoad
		externals["sync/atomic.Store"+t] = rawStore
		externals["sync/atomic.Add"+t] = rawAdd
		externals["sync/atomic.CompareAndSwap"+t] = rawCAS
	}

	// ---------------- math
	f1 := func(f func(float64) float64) externalFn {
		return func(fr *frame, args []value) (value, bool) { return done(f(args[0].(float64))) }
	}
	f2 := func(f func(float64, float64) float64) externalFn {
		return func(fr *frame, args []value) (value, bool) {
			return done(f(args[0].(float64), args[1].(float64)))
		}
	}
	for n, f := range map[string]func(float64) float64{
		"Abs": math.Abs, "Floor": math.Floor, "Ceil": math.Ceil, "Trunc": math.Trunc, "Round": math.Round,
		"RoundToEven": math.RoundToEven, "Sqrt": math.Sqrt, "Log": math.Log, "Log2": math.Log2, "Log10": math.Log10,
		"Exp": math.Exp, "Exp2": math.Exp2, "Sin": math.Sin, "Cos": math.Cos, "Tan": math.Tan, "Atan": math.Atan,
		"Asin": math.Asin, "Acos": math.Acos, "Cbrt": math.Cbrt,
	} {
		externals["math."+n] = f1(f)
	}
	for n, f := range map[string]func(float64, float64) float64{
		"Pow": math.Pow, "Mod": math.Mod, "Max": math.Max, "Min": math.Min, "Atan2": math.Atan2,
		"Hypot": math.Hypot, "Copysign": math.Copysign, "Remainder": math.Remainder, "Nextafter": math.Nextafter, "Dim": math.Dim,
	} {
		externals["math."+n] = f2(f)
	}
	// math/bits.Len*: the result decides field widths and shift counts; a
	// symbolic argument is case split over the feasible results.
	for name, w := range map[string]int{"Len64": 64, "Len32": 32, "Len16": 16, "Len8": 8, "Len": 64} {
		width := w
		externals["math/bits."+name] = func(fr *frame, args []value) (value, bool) {
			if _, u, ok := unboxInt(args[0]); ok {
				return done(int(bits.Len64(u)))
			}
			sv, ok := args[0].(Sym)
			if !ok {
				panic(fr.in.unsupported("bits.Len of a non-integer value"))
			}
			tt := fr.in.tt
			x := sv.T
			res := tt.Const(8, uint64(width))
			for r := width - 1; r >= 0; r-- {
				// Len(x) <= r  iff  x < 2^r
				res = tt.Ite(tt.Cmp(OpUlt, x, tt.Const(x.W, uint64(1)<<uint(r))), tt.Const(8, uint64(r)), res)
			}
			return done(int(fr.in.concretize(res, "bits.Len")))
		}
	}
	externals["math.Float64bits"] = func(fr *frame, args []value) (value, bool) {
		return done(math.Float64bits(args[0].(float64)))
	}
	externals["math.Float64frombits"] = func(fr *frame, args []value) (value, bool) {
		u, ok := args[0].(uint64)
		if !ok {
			panic(fr.in.unsupported("math.Float64frombits of a symbolic value"))
		}
		return done(math.Float64frombits(u))
	}
	externals["math.Float32bits"] = func(fr *frame, args []value) (value, bool) {
		return done(math.Float32bits(args[0].(float32)))
	}
	externals["math.Float32frombits"] = func(fr *frame, args []value) (value, bool) {
		u, ok := args[0].(uint32)
		if !ok {
			panic(fr.in.unsupported("math.Float32frombits of a symbolic value"))
		}
		return done(math.Float32frombits(u))
	}
	externals["math.Inf"] = func(fr *frame, args []value) (value, bool) { return done(math.Inf(int(asInt64(args[0])))) }
	externals["math.NaN"] = func(fr *frame, args []value) (value, bool) { return done(math.NaN()) }
	externals["math.IsNaN"] = func(fr *frame, args []value) (value, bool) { return done(math.IsNaN(args[0].(float64))) }
	externals["math.IsInf"] = func(fr *frame, args []value) (value, bool) {
		return done(math.IsInf(args[0].(float64), int(asInt64(args[1]))))
	}
	externals["math.Signbit"] = func(fr *frame, args []value) (value, bool) { return done(math.Signbit(args[0].(float64))) }
	externals["math.Modf"] = func(fr *frame, args []value) (value, bool) {
		a, b := math.Modf(args[0].(float64))
		return done(tuple{a, b})
	}
	externals["math.Frexp"] = func(fr *frame, args []value) (value, bool) {
		a, b := math.Frexp(args[0].(float64))
		return done(tuple{a, b})
	}
	externals["math.Ldexp"] = func(fr *frame, args []value) (value, bool) {
		return done(math.Ldexp(args[0].(float64), int(asInt64(args[1]))))
	}

	// ---------------- unicode (tables are not interpreted)
	r1 := func(f func(rune) bool) externalFn {
		return func(fr *frame, args []value) (value, bool) {
			r, ok := args[0].(int32)
			if !ok {
				r = int32(fr.in.concreteInt(args[0], "unicode predicate"))
			}
			return done(f(r))
		}
	}
	for n, f := range map[string]func(rune) bool{
		"IsSpace": unicode.IsSpace, "IsDigit": unicode.IsDigit, "IsLetter": unicode.IsLetter, "IsUpper": unicode.IsUpper,
		"IsLower": unicode.IsLower, "IsPrint": unicode.IsPrint, "IsGraphic": unicode.IsGraphic, "IsControl": unicode.IsControl,
		"IsPunct": unicode.IsPunct, "IsNumber": unicode.IsNumber, "IsMark": unicode.IsMark, "IsSymbol": unicode.IsSymbol, "IsTitle": unicode.IsTitle,
	} {
		externals["unicode."+n] = r1(f)
	}
	externals["unicode.ToUpper"] = func(fr *frame, args []value) (value, bool) {
		return done(unicode.ToUpper(int32(fr.in.concreteInt(args[0], "unicode.ToUpper"))))
	}
	externals["unicode.ToLower"] = func(fr *frame, args []value) (value, bool) {
		return done(unicode.ToLower(int32(fr.in.concreteInt(args[0], "unicode.ToLower"))))
	}

	// ---------------- strconv (concrete: native; symbolic decimal: model)
	externals["strconv.Itoa"] = func(fr *frame, args []value) (value, bool) {
		if s, ok := args[0].(Sym); ok {
			return done(mkString(fr.in.decimalModel(s)))
		}
		return done(strconv.Itoa(int(asInt64(args[0]))))
	}
	externals["strconv.FormatInt"] = func(fr *frame, args []value) (value, bool) {
		base := int(asInt64(args[1]))
		if s, ok := args[0].(Sym); ok {
			if base == 10 {
				return done(mkString(fr.in.decimalModel(s)))
			}
			return nil, false
		}
		return done(strconv.FormatInt(asInt64(args[0]), base))
	}
	externals["strconv.FormatUint"] = func(fr *frame, args []value) (value, bool) {
		base := int(asInt64(args[1]))
		if s, ok := args[0].(Sym); ok {
			if base == 10 {
				return done(mkString(fr.in.decimalModel(s)))
			}
			return nil, false
		}
		return done(strconv.FormatUint(uint64(asInt64(args[0])), base))
	}
	externals["strconv.AppendInt"] = func(fr *frame, args []value) (value, bool) {
		base := int(asInt64(args[2]))
		var digits []value
		if s, ok := args[1].(Sym); ok {
			if base != 10 {
				return nil, false
			}
			digits = fr.in.decimalModel(s)
		} else {
			digits = strBytes(strconv.FormatInt(asInt64(args[1]), base))
		}
		return done(fr.in.appendVals(args[0].([]value), digits))
	}
	externals["strconv.AppendUint"] = func(fr *frame, args []value) (value, bool) {
		base := int(asInt64(args[2]))
		var digits []value
		if s, ok := args[1].(Sym); ok {
			if base != 10 {
				return nil, false
			}
			digits = fr.in.decimalModel(s)
		} else {
			digits = strBytes(strconv.FormatUint(uint64(asInt64(args[1])), base))
		}
		return done(fr.in.appendVals(args[0].([]value), digits))
	}
	externals["strconv.FormatFloat"] = func(fr *frame, args []value) (value, bool) {
		return done(strconv.FormatFloat(args[0].(float64), byte(asInt64(args[1])), int(asInt64(args[2])), int(asInt64(args[3]))))
	}
	externals["strconv.AppendFloat"] = func(fr *frame, args []value) (value, bool) {
		s := strconv.FormatFloat(args[1].(float64), byte(asInt64(args[2])), int(asInt64(args[3])), int(asInt64(args[4])))
		return done(fr.in.appendVals(args[0].([]value), strBytes(s)))
	}
	externals["strconv.ParseFloat"] = func(fr *frame, args []value) (value, bool) {
		s, ok := args[0].(string)
		if !ok {
			// float parsing is not encodable: case split over the feasible
			// values of the symbolic bytes (few: the scanner has already
			// restricted them to digits, sign and dot)
			b := strBytes(args[0])
			hb := make([]byte, len(b))
			for i, e := range b {
				if sv, isSym := e.(Sym); isSym {
					hb[i] = byte(fr.in.concretize(sv.T, "ParseFloat byte"))
				} else {
					hb[i] = e.(uint8)
				}
			}
			s = string(hb)
		}
		f, err := strconv.ParseFloat(s, int(asInt64(args[1])))
		if err != nil {
			return done(tuple{f, fr.in.newError("strconv.ParseFloat: parsing " + strconv.Quote(s) + ": " + err.(*strconv.NumError).Err.Error())})
		}
		return done(tuple{f, iface{}})
	}
	externals["strconv.Quote"] = func(fr *frame, args []value) (value, bool) {
		s, ok := args[0].(string)
		if !ok {
			return done("\"<symbolic string>\"")
		}
		return done(strconv.Quote(s))
	}

	// ---------------- regexp (concrete subjects only)
	externals["regexp.MustCompile"] = func(fr *frame, args []value) (value, bool) {
		var c value = native{regexp.MustCompile(args[0].(string))}
		return done(&c)
	}
	externals["regexp.Compile"] = func(fr *frame, args []value) (value, bool) {
		re, err := regexp.Compile(args[0].(string))
		if err != nil {
			return done(tuple{(*value)(nil), fr.in.newError(err.Error())})
		}
		var c value = native{re}
		return done(tuple{&c, iface{}})
	}
	reOf := func(v value) *regexp.Regexp { return (*cellOf(v)).(native).v.(*regexp.Regexp) }
	subj := func(fr *frame, v value) []byte {
		b, ok := hostBytes(v)
		if !ok {
			panic(fr.in.unsupported("regexp on symbolic bytes"))
		}
		return b
	}
	intsOut := func(x []int) value {
		if x == nil {
			return []value(nil)
		}
		out := make([]value, len(x))
		for i, e := range x {
			out[i] = e
		}
		return out
	}
	externals["(*regexp.Regexp).Find"] = func(fr *frame, args []value) (value, bool) {
		return done(fromHostBytes(reOf(args[0]).Find(subj(fr, args[1]))))
	}
	externals["(*regexp.Regexp).FindIndex"] = func(fr *frame, args []value) (value, bool) {
		return done(intsOut(reOf(args[0]).FindIndex(subj(fr, args[1]))))
	}
	externals["(*regexp.Regexp).FindStringIndex"] = externals["(*regexp.Regexp).FindIndex"]
	externals["(*regexp.Regexp).FindSubmatchIndex"] = func(fr *frame, args []value) (value, bool) {
		return done(intsOut(reOf(args[0]).FindSubmatchIndex(subj(fr, args[1]))))
	}
	externals["(*regexp.Regexp).FindStringSubmatchIndex"] = externals["(*regexp.Regexp).FindSubmatchIndex"]
	externals["(*regexp.Regexp).Match"] = func(fr *frame, args []value) (value, bool) {
		return done(reOf(args[0]).Match(subj(fr, args[1])))
	}
	externals["(*regexp.Regexp).MatchString"] = externals["(*regexp.Regexp).Match"]
	externals["(*regexp.Regexp).FindSubmatch"] = func(fr *frame, args []value) (value, bool) {
		m := reOf(args[0]).FindSubmatch(subj(fr, args[1]))
		if m == nil {
			return done([]value(nil))
		}
		out := make([]value, len(m))
		for i, e := range m {
			out[i] = fromHostBytes(e)
		}
		return done(out)
	}
	externals["(*regexp.Regexp).FindStringSubmatch"] = func(fr *frame, args []value) (value, bool) {
		m := reOf(args[0]).FindStringSubmatch(string(subj(fr, args[1])))
		if m == nil {
			return done([]value(nil))
		}
		out := make([]value, len(m))
		for i, e := range m {
			out[i] = e
		}
		return done(out)
	}
	externals["(*regexp.Regexp).FindAllIndex"] = func(fr *frame, args []value) (value, bool) {
		m := reOf(args[0]).FindAllIndex(subj(fr, args[1]), int(asInt64(args[2])))
		if m == nil {
			return done([]value(nil))
		}
		out := make([]value, len(m))
		for i, e := range m {
			out[i] = intsOut(e)
		}
		return done(out)
	}
	externals["(*regexp.Regexp).FindAllSubmatchIndex"] = func(fr *frame, args []value) (value, bool) {
		m := reOf(args[0]).FindAllSubmatchIndex(subj(fr, args[1]), int(asInt64(args[2])))
		if m == nil {
			return done([]value(nil))
		}
		out := make([]value, len(m))
		for i, e := range m {
			out[i] = intsOut(e)
		}
		return done(out)
	}
	externals["(*regexp.Regexp).FindReaderSubmatchIndex"] = func(fr *frame, args []value) (value, bool) {
		panic(fr.in.unsupported("regexp on an io.RuneReader"))
	}

	// ---------------- reflect (type tokens only)
	externals["internal/reflectlite.TypeOf"] = func(fr *frame, args []value) (value, bool) {
		i := args[0].(iface)
		if i.t == nil {
			return done(iface{})
		}
		return done(iface{t: rtypeType, v: rtype{i.t}})
	}
	externals["reflect.TypeOf"] = func(fr *frame, args []value) (value, bool) {
		i := args[0].(iface)
		if i.t == nil {
			return done(iface{})
		}
		return done(iface{t: rtypeType, v: rtype{i.t}})
	}
	prefixExternals = append(prefixExternals, struct {
		prefix string
		fn     externalFn
	}{"reflect.TypeFor[", func(fr *frame, args []value) (value, bool) {
		targs := fr.fn.TypeArgs()
		return done(iface{t: rtypeType, v: rtype{targs[0]}})
	}})

	// ---------------- sort (reflection based entry points)
	sortSlice := func(fr *frame, args []value) (value, bool) {
		in := fr.in
		s := args[0].(iface).v.([]value)
		less := args[1]
		// insertion sort (stable), calling the interpreted less
		for i := 1; i < len(s); i++ {
			for j := i; j > 0; j-- {
				if !in.truth(in.call(fr, 0, less, []value{j, j - 1})) {
					break
				}
				a, b := copyVal(s[j]), copyVal(s[j-1])
				in.storeCell(&s[j], b)
				in.storeCell(&s[j-1], a)
			}
		}
		return done(nil)
	}
	externals["sort.Slice"] = sortSlice
	externals["sort.SliceStable"] = sortSlice

	externals["internal/stringslite.Clone"] = func(fr *frame, args []value) (value, bool) { return done(args[0]) }
	externals["strings.Clone"] = externals["internal/stringslite.Clone"]
	// ---------------- embed.FS: files are read from the package directory
	externals["(embed.FS).Open"] = func(fr *frame, args []value) (value, bool) {
		in := fr.in
		name, _ := args[1].(string)
		// the embedding package is the one whose code calls Open
		var dir string
		for c := fr.caller; c != nil; c = c.caller {
			if c.fn.Pkg != nil && c.fn.Pkg.Pkg.Path() != "embed" {
				if pos := c.fn.Pos(); pos.IsValid() {
					dir = filepath.Dir(in.prog.Fset.Position(pos).Filename)
				}
				break
			}
		}
		data, err := os.ReadFile(filepath.Join(dir, name))
		if err != nil {
			return done(tuple{iface{}, in.newError("open " + name + ": file does not exist")})
		}
		newReader := in.pkgFunc("bytes", "NewReader")
		nop := in.pkgFunc("io", "NopCloser")
		if newReader == nil || nop == nil {
			panic(in.unsupported("embed.FS.Open needs bytes.NewReader and io.NopCloser"))
		}
		rd := in.call(fr, 0, newReader, []value{fromHostBytes(data)})
		rdT := types.NewPointer(in.prog.ImportedPackage("bytes").Type("Reader").Type())
		rc := in.call(fr, 0, nop, []value{iface{t: rdT, v: rd}})
		return done(tuple{rc, iface{}})
	}
	externals["(embed.FS).ReadFile"] = func(fr *frame, args []value) (value, bool) {
		in := fr.in
		name, _ := args[1].(string)
		var dir string
		for c := fr.caller; c != nil; c = c.caller {
			if c.fn.Pkg != nil && c.fn.Pkg.Pkg.Path() != "embed" {
				if pos := c.fn.Pos(); pos.IsValid() {
					dir = filepath.Dir(in.prog.Fset.Position(pos).Filename)
				}
				break
			}
		}
		data, err := os.ReadFile(filepath.Join(dir, name))
		if err != nil {
			return done(tuple{[]value(nil), in.newError("open " + name + ": file does not exist")})
		}
		return done(tuple{fromHostBytes(data), iface{}})
	}

	// ---------------- maps / runtime helpers
	externals["maps.clone"] = func(fr *frame, args []value) (value, bool) {
		it := args[0].(iface)
		m, _ := it.v.(*Map)
		if m == nil {
			return done(it)
		}
		n := newMap(m.keyType)
		for i := range m.keys {
			if !m.dead[i] {
				n.insert(fr.in, m.keys[i], copyVal(m.vals[i]))
			}
		}
		return done(iface{t: it.t, v: n})
	}
	externals["time.runtimeNano"] = func(fr *frame, args []value) (value, bool) { return done(int64(1)) }
	externals["time.runtimeNow"] = func(fr *frame, args []value) (value, bool) {
		return done(tuple{int64(1700000000), int32(0), int64(1)})
	}
	externals["time.now"] = externals["time.runtimeNow"]
	externals["runtime.nanotime"] = func(fr *frame, args []value) (value, bool) { return done(int64(1)) }

	// ---------------- time / os odds and ends
	externals["os.Getenv"] = func(fr *frame, args []value) (value, bool) { return done("") }
}

var rtypeType = types.NewNamed(types.NewTypeName(0, nil, "rtype", nil), types.NewStruct(nil, nil), nil)

// newError builds an *errors.errorString value.
func (in *interp) newError(msg value) value {
	var cell value = structure{msg}
	return iface{t: in.errorStringType, v: &cell}
}

// decimalModel returns the decimal digits of a symbolic integer as fresh
// digit variables constrained by x = Σ d_i·10^i; the digit count is chosen by
// a fork on the ranges [10^(k-1), 10^k).
func (in *interp) decimalModel(s Sym) []value {
	// the digits of one term are modelled once per path, so that formatting
	// the same value twice yields syntactically identical bytes
	key := decKey{s.T, kindSigned(s.K)}
	if d, ok := in.path.decCache[key]; ok {
		return append([]value(nil), d...)
	}
	d := in.decimalModel1(s)
	if in.path.decCache == nil {
		in.path.decCache = map[decKey][]value{}
	}
	in.path.decCache[key] = d
	return append([]value(nil), d...)
}

type decKey struct {
	t      *Term
	signed bool
}

func (in *interp) decimalModel1(s Sym) []value {
	tt := in.tt
	x := s.T
	signed := kindSigned(s.K)
	w := x.W
	if w < 64 {
		if signed {
			x = tt.Sext(x, 64)
		} else {
			x = tt.Zext(x, 64)
		}
	}
	neg := false
	if signed {
		if in.truth(in.symBool(tt.Cmp(OpSlt, x, tt.Const(64, 0)))) {
			neg = true
			x = tt.Un(OpNeg, x) // MinInt64 stays MinInt64 as unsigned 2^63: fine
		}
	}
	// number of digits
	nd := 1
	p := uint64(10)
	for nd < 20 {
		if !in.truth(in.symBool(tt.Cmp(OpUle, tt.Const(64, p), x))) {
			break
		}
		nd++
		if nd == 20 {
			break
		}
		p *= 10
	}
	// Within this branch x < 10^nd.  Continue with a fresh variable equal to x
	// that carries this bound, so that every derived quotient has a tight
	// syntactic upper bound (overflow checks of a re-parse then fold away).
	if nd < 20 {
		p10 := uint64(1)
		for i := 0; i < nd; i++ {
			p10 *= 10
		}
		in.path.freshSeq++
		xn := tt.Var(fmt.Sprintf("decx!%d!%d", in.path.freshSeq, nd), 64)
		xn.umax = p10 - 1
		in.path.atoms = append(in.path.atoms, xn)
		in.assumeCond(in.symBool(tt.Cmp(OpEq, xn, x)))
		x = xn
	}
	// digits by chained division: d_0 = x % 10, q_1 = x / 10, d_1 = q_1 % 10 …
	// (quotient/remainder atoms with defining constraints; a Horner re-parse
	// of these digits is recomposed to x by the term simplifier)
	digits := make([]*Term, nd)
	cur := x
	for i := 0; i < nd; i++ {
		if i == nd-1 {
			digits[i] = cur // < 10 by the digit-count branch
			break
		}
		q, r := tt.UDivRemConst(cur, 10)
		digits[i] = r
		cur = q
	}
	for i := range digits {
		digits[i] = tt.Extract(digits[i], 7, 0)
	}
	out := []value{}
	if neg {
		out = append(out, uint8('-'))
	}
	for i := nd - 1; i >= 0; i-- {
		out = append(out, in.symInt(tt.Bin(OpAdd, digits[i], tt.Const(8, '0')), types.Uint8))
	}
	return out
}
