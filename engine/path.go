package main

// Path exploration by re-execution with decision prefixes.
//
// A work item is a prefix of decisions.  A worker replays the prefix without
// querying the solver (conditions are asserted so that later queries see the
// full path condition), and at each new symbolic decision takes the side its
// witness model satisfies and asks the solver whether the other side is
// feasible too; if so the other side is pushed with its own witness model.

import (
	"fmt"
	"time"
	"go/types"
	"sort"
	"sync"

	"golang.org/x/tools/go/ssa"
)

type abortKind int

const (
	abortInfeasible abortKind = iota
	abortUnsupported
	abortUnwind
	abortBudget
	abortInconclusive
	abortStop
	abortSpec
)

func (k abortKind) String() string {
	return [...]string{"infeasible", "unsupported", "unwind", "budget", "inconclusive", "stop", "spec"}[k]
}

type abortPath struct {
	kind abortKind
	msg  string
}

func (in *interp) abort(kind abortKind, msg string) abortPath {
	return abortPath{kind, msg}
}

func (in *interp) unsupported(msg string) abortPath {
	return abortPath{abortUnsupported, msg}
}

const (
	decBranch uint8 = iota
	decValue
)

type decision struct {
	kind uint8
	b    bool
	v    uint64
}

type workItem struct {
	prefix  []decision
	pending bool     // last prefix element is a value decision still to be chosen
	excl    []uint64 // values already taken at the pending decision
}

type draw struct {
	Name string `json:"name"`
	Kind string `json:"kind"` // "u8","u16","u32","u64","i64","int","bool"
	term *Term
	conc uint64
	isC  bool
}

type observation struct {
	name string
	v    value
}

type pathState struct {
	item     *workItem
	pos      int
	trace    []decision
	pc       []*Term
	pcAtoms  [][]*Term
	uf       map[int32]int32
	model    *Model
	atoms    []*Term
	draws    []draw
	drawSeq  map[string]int
	obs      []observation
	covers   map[string]bool
	unwind   int
	unwindViolates bool // exceeding the bound is the violation "terminates"
	instrs   int64
	mapOrderAll bool
	newDecisions int
	allocMax *Term
	freshSeq int
	allocLimit int64
	decCache   map[decKey][]value
	slicing    bool
	ticks      int64
	start      time.Time
	atomSeen   map[int32]bool
	allAtoms   []*Term
}

// freshAtom returns an unconstrained atom with a path-local deterministic
// name (the same names are reused by every path, which keeps the term table
// and the solver's declarations bounded).
func (in *interp) freshAtom(prefix string, w uint8) *Term {
	p := in.path
	p.freshSeq++
	t := in.tt.Var(fmt.Sprintf("%s!%d", prefix, p.freshSeq), w)
	p.atoms = append(p.atoms, t)
	return t
}

// violation is a counterexample found by the solver (not yet replayed).
type violation struct {
	Harness string
	Label   string
	Msg     string
	Draws   []replayDraw
	Obs     []string
}

type replayDraw struct {
	Name  string `json:"name"`
	Kind  string `json:"kind"`
	Value uint64 `json:"value"`
}

type pathSummary struct {
	Status    string
	Msg       string
	Decisions int
	Draws     []replayDraw
	Obs       []string
}

// job is the exploration of one harness.
type job struct {
	name    string
	fn      *ssa.Function
	cfg     *runConfig
	mu      sync.Mutex
	cond    *sync.Cond
	work    []*workItem
	active  int
	stopped bool

	paths       int
	statusCount map[string]int
	notCovered  map[string]int
	violations  []violation
	violByLabel map[string]int
	covers      map[string]int
	samples     []pathSummary
	decisions   int64
	maxDecisions int
	inconclusive int
	funcs       map[string]bool
	rng         uint64
	infeasibleWhy map[string]int
	rel         string
	wall        time.Duration
	mapOrder    bool
	ld          *loaded
	deadline    time.Time
}

func newJob(name string, fn *ssa.Function, cfg *runConfig) *job {
	j := &job{name: name, fn: fn, cfg: cfg,
		statusCount: map[string]int{}, notCovered: map[string]int{},
		violByLabel: map[string]int{}, covers: map[string]int{}, funcs: map[string]bool{}, infeasibleWhy: map[string]int{}}
	j.cond = sync.NewCond(&j.mu)
	j.work = []*workItem{{}}
	return j
}

func (j *job) push(it *workItem) {
	j.mu.Lock()
	j.work = append(j.work, it)
	j.mu.Unlock()
	j.cond.Signal()
}

// pop blocks until an item is available or the job is complete.
func (j *job) pop() *workItem {
	j.mu.Lock()
	defer j.mu.Unlock()
	for {
		if j.stopped {
			return nil
		}
		if n := len(j.work); n > 0 {
			it := j.work[n-1]
			j.work = j.work[:n-1]
			j.active++
			return it
		}
		if j.active == 0 {
			j.cond.Broadcast()
			return nil
		}
		j.cond.Wait()
	}
}

func (j *job) done() {
	j.mu.Lock()
	j.active--
	if j.active == 0 && len(j.work) == 0 {
		j.cond.Broadcast()
	}
	j.mu.Unlock()
}

func (j *job) noteNotCovered(reason string) {
	j.mu.Lock()
	j.notCovered[reason]++
	j.mu.Unlock()
}

// ------------------------------------------------------------- decisions

func (in *interp) assume(t *Term, b bool) {
	c := t
	if !b {
		c = in.tt.Not(t)
	}
	p := in.path
	if p.model != nil && p.model.Eval(c) == 0 {
		p.model = nil // a witness fetched earlier no longer satisfies the path condition
	}
	p.pc = append(p.pc, c)
	as := in.atomsOf(c)
	p.pcAtoms = append(p.pcAtoms, as)
	if !p.slicing {
		in.solver.Assert(c)
		for _, a := range as {
			if !p.atomSeen[a.id] {
				if p.atomSeen == nil {
					p.atomSeen = map[int32]bool{}
				}
				p.atomSeen[a.id] = true
				p.allAtoms = append(p.allAtoms, a)
			}
		}
	}
	for i := 1; i < len(as); i++ {
		p.union(as[0].id, as[i].id)
	}
	for _, a := range as {
		p.find(a.id)
	}
}

// atomsOf returns the atoms (variables, UF applications) below t, linking
// defined atoms (quotient/remainder) to the atoms of their definition.
func (in *interp) atomsOf(t *Term) []*Term {
	if as, ok := in.atomCache[t.id]; ok {
		return as
	}
	seen := map[int32]bool{}
	var out []*Term
	var rec func(x *Term)
	rec = func(x *Term) {
		if x.op == OpConst || seen[x.id] {
			return
		}
		seen[x.id] = true
		switch x.op {
		case OpVar:
			out = append(out, x)
			if x.def != nil {
				rec(x.def)
			}
			for _, sc := range x.side {
				rec(sc)
			}
			return
		case OpUF:
			out = append(out, x)
		}
		for _, a := range x.args {
			rec(a)
		}
	}
	rec(t)
	// dedupe
	uniq := out[:0:0]
	d := map[int32]bool{}
	for _, a := range out {
		if !d[a.id] {
			d[a.id] = true
			uniq = append(uniq, a)
		}
	}
	if in.atomCache == nil {
		in.atomCache = map[int32][]*Term{}
	}
	in.atomCache[t.id] = uniq
	return uniq
}

func (p *pathState) find(a int32) int32 {
	if p.uf == nil {
		p.uf = map[int32]int32{}
	}
	r, ok := p.uf[a]
	if !ok {
		p.uf[a] = a
		return a
	}
	if r == a {
		return a
	}
	root := p.find(r)
	p.uf[a] = root
	return root
}

func (p *pathState) union(a, b int32) {
	ra, rb := p.find(a), p.find(b)
	if ra != rb {
		p.uf[ra] = rb
	}
}

// relevant returns the path-condition conjuncts in the components of the
// given atoms (all conjuncts if atoms is nil) and the atoms they mention.
func (in *interp) relevant(atoms []*Term, all bool) ([]*Term, []*Term) {
	p := in.path
	roots := map[int32]bool{}
	for _, a := range atoms {
		roots[p.find(a.id)] = true
	}
	var cs []*Term
	seen := map[int32]bool{}
	var as []*Term
	for _, a := range atoms {
		if !seen[a.id] {
			seen[a.id] = true
			as = append(as, a)
		}
	}
	for i, c := range p.pc {
		ca := p.pcAtoms[i]
		if !all {
			if len(ca) == 0 || !roots[p.find(ca[0].id)] {
				continue
			}
		}
		cs = append(cs, c)
		for _, a := range ca {
			if !seen[a.id] {
				seen[a.id] = true
				as = append(as, a)
			}
		}
	}
	return cs, as
}

// solve decides PC ∧ extra restricted to the components that extra touches.
// With wantModel it merges the model of those components into base.
func (in *interp) solve(extra *Term, wantModel bool, base *Model) (Result, *Model) {
	if p := in.path; p != nil {
		if time.Since(p.start) > in.cfg.pathBudget {
			panic(in.abort(abortBudget, "per-path wall-clock budget exceeded"))
		}
		if j := in.job(); j != nil && !j.deadline.IsZero() && time.Now().After(j.deadline) {
			panic(in.abort(abortBudget, "harness wall-clock budget exceeded inside a path"))
		}
	}
	s := in.solver
	var xa []*Term
	if extra != nil {
		xa = in.atomsOf(extra)
	}
	var cs, as []*Term
	if in.path.slicing {
		cs, as = in.relevant(xa, false)
	} else {
		// incremental mode: the path condition is already asserted
		as = append(append([]*Term(nil), in.path.allAtoms...), xa...)
	}
	s.Push()
	for _, c := range cs {
		s.Assert(c)
	}
	if extra != nil {
		s.Assert(extra)
	}
	r := s.Check()
	var m *Model
	if r == Sat && wantModel {
		m = newModel()
		if base != nil {
			for k, v := range base.vals {
				m.vals[k] = v
			}
		}
		if !s.GetValues(as, m) {
			m = nil
		}
	}
	s.Pop()
	return r, m
}

func (in *interp) truth(c value) bool {
	switch c := c.(type) {
	case bool:
		return c
	case Sym:
		if c.T.IsConst() {
			return c.T.val != 0
		}
		return in.decide(c.T)
	}
	panic(fmt.Sprintf("truth: %T", c))
}

// ensureModel makes sure the path has a witness model for its current path
// condition (solved component by component after a replayed prefix).
func (in *interp) ensureModel() {
	p := in.path
	if p.model != nil {
		return
	}
	m := newModel()
	if len(p.pc) == 0 {
		p.model = m
		return
	}
	// one query over the whole path condition (get-value is expensive in z3,
	// so the model is fetched once per path rather than per component)
	s := in.solver
	s.Push()
	var as []*Term
	seen := map[int32]bool{}
	for i, c := range p.pc {
		if p.slicing {
			s.Assert(c)
		}
		for _, a := range p.pcAtoms[i] {
			if !seen[a.id] {
				seen[a.id] = true
				as = append(as, a)
			}
		}
	}
	res := s.Check()
	ok := true
	if res == Sat {
		ok = s.GetValues(as, m)
	}
	s.Pop()
	switch {
	case res == Unsat:
		panic(in.abort(abortInfeasible, "path condition is infeasible"))
	case res == Unknown:
		panic(in.abort(abortInconclusive, "solver unknown on path condition"))
	case !ok:
		panic(in.abort(abortInconclusive, "model extraction failed"))
	}
	p.model = m
}

func (in *interp) decide(t *Term) bool {
	p := in.path
	if p == nil {
		panic(in.unsupported("symbolic branch outside a path (package initialisation?)"))
	}
	if in.speculating {
		panic(abortPath{abortSpec, "decision during speculation"})
	}
	in.stats.Decisions++
	if p.pos < len(p.item.prefix) {
		d := p.item.prefix[p.pos]
		p.pos++
		if d.kind != decBranch {
			panic(fmt.Sprintf("replay divergence: expected branch decision at %d", p.pos-1))
		}
		in.assume(t, d.b)
		p.trace = append(p.trace, d)
		return d.b
	}
	p.newDecisions++
	if len(p.trace) >= in.cfg.maxDecisions {
		panic(in.abort(abortBudget, "decision budget exceeded"))
	}
	in.ensureModel()
	b := p.model.Eval(t) != 0
	other := t
	if b {
		other = in.tt.Not(t)
	}
	r, _ := in.solve(other, false, nil)
	switch r {
	case Sat:
		pre := make([]decision, len(p.trace)+1)
		copy(pre, p.trace)
		pre[len(p.trace)] = decision{kind: decBranch, b: !b}
		in.job().push(&workItem{prefix: pre})
	case Unknown:
		in.job().noteNotCovered("solver unknown on a branch")
	}
	in.assume(t, b)
	p.trace = append(p.trace, decision{kind: decBranch, b: b})
	return b
}

func (in *interp) job() *job { return in.cfg.curJob }

// concretize forks over the feasible values of t (64-bit or narrower).
func (in *interp) concretize(t *Term, why string) uint64 {
	if t.IsConst() {
		return t.val
	}
	p := in.path
	if p == nil {
		panic(in.unsupported("symbolic value outside a path"))
	}
	if in.speculating {
		panic(abortPath{abortSpec, "concretisation during speculation"})
	}
	in.stats.Decisions++
	tt := in.tt
	var excl []uint64
	if p.pos < len(p.item.prefix) {
		d := p.item.prefix[p.pos]
		last := p.pos == len(p.item.prefix)-1
		p.pos++
		if d.kind != decValue {
			panic(fmt.Sprintf("replay divergence: expected value decision at %d (%s)", p.pos-1, why))
		}
		if !(last && p.item.pending) {
			in.assume(tt.Cmp(OpEq, t, tt.Const(t.W, d.v)), true)
			p.trace = append(p.trace, d)
			return d.v
		}
		excl = p.item.excl
		for _, e := range excl {
			in.assume(tt.Cmp(OpEq, t, tt.Const(t.W, e)), false)
		}
	}
	p.newDecisions++
	if len(p.trace) >= in.cfg.maxDecisions {
		panic(in.abort(abortBudget, "decision budget exceeded"))
	}
	in.ensureModel()
	v := p.model.Eval(t)
	for _, e := range excl {
		if e == v {
			panic(fmt.Sprintf("concretize: model value %d is excluded (%s)", v, why))
		}
	}
	if len(excl)+1 > in.cfg.maxValues {
		in.job().noteNotCovered(fmt.Sprintf("more than %d values at concretisation (%s)", in.cfg.maxValues, why))
	} else {
		r, _ := in.solve(tt.Not(tt.Cmp(OpEq, t, tt.Const(t.W, v))), false, nil)
		switch r {
		case Sat:
			pre := make([]decision, len(p.trace)+1)
			copy(pre, p.trace)
			pre[len(p.trace)] = decision{kind: decValue}
			ex := append(append([]uint64(nil), excl...), v)
			in.job().push(&workItem{prefix: pre, pending: true, excl: ex})
		case Unknown:
			in.job().noteNotCovered("solver unknown at concretisation (" + why + ")")
		}
	}
	in.assume(tt.Cmp(OpEq, t, tt.Const(t.W, v)), true)
	p.trace = append(p.trace, decision{kind: decValue, v: v})
	return v
}

// assumeCond restricts the path to cond (harness Assume, post-Assert).
func (in *interp) assumeCond(c value) {
	switch c := c.(type) {
	case bool:
		if !c {
			panic(in.abort(abortInfeasible, "assumption is false"))
		}
	case Sym:
		p := in.path
		if p.pos < len(p.item.prefix) {
			// still replaying: feasibility was established before
			in.assume(c.T, true)
			return
		}
		in.ensureModel()
		if p.model.Eval(c.T) == 0 {
			r, m := in.solve(c.T, true, p.model)
			switch {
			case r == Unsat:
				panic(in.abort(abortInfeasible, "assumption is infeasible"))
			case r == Unknown || m == nil:
				panic(in.abort(abortInconclusive, "solver unknown on assumption"))
			}
			p.model = m
		}
		in.assume(c.T, true)
	}
}

// checkAssert decides a harness assertion.
func (in *interp) checkAssert(c value, label string) {
	switch c := c.(type) {
	case bool:
		if !c {
			in.ensureModel()
			in.reportViolation(label, "assertion is false on this path", in.path.model)
			panic(in.abort(abortStop, "assertion failed"))
		}
	case Sym:
		p := in.path
		if p.pos < len(p.item.prefix) {
			// already checked when this prefix was first explored
			in.assume(c.T, true)
			return
		}
		in.ensureModel()
		r, mv := in.solve(in.tt.Not(c.T), true, p.model)
		switch r {
		case Sat:
			if mv == nil {
				in.job().noteNotCovered("model extraction failed at assertion " + label)
			} else {
				in.reportViolation(label, "assertion can be false", mv)
			}
		case Unknown:
			in.job().noteNotCovered("solver unknown at assertion " + label)
		}
		in.assumeCond(c)
	}
}

func (in *interp) drawsUnder(m *Model) []replayDraw {
	p := in.path
	out := make([]replayDraw, len(p.draws))
	for i, d := range p.draws {
		v := d.conc
		if !d.isC {
			v = m.Eval(d.term)
		}
		out[i] = replayDraw{Name: d.Name, Kind: d.Kind, Value: v}
	}
	return out
}

func (in *interp) reportViolation(label, msg string, m *Model) {
	j := in.job()
	v := violation{Harness: j.name, Label: label, Msg: msg, Draws: in.drawsUnder(m)}
	for _, o := range in.path.obs {
		v.Obs = append(v.Obs, o.name+"="+in.render(o.v, m))
	}
	j.mu.Lock()
	j.violByLabel[label]++
	if j.violByLabel[label] <= in.cfg.maxViolationsPerLabel {
		j.violations = append(j.violations, v)
	}
	j.mu.Unlock()
}

// choosePermutation forks over the iteration orders of a small map.
func (in *interp) choosePermutation(m *Map) []int {
	var live []int
	for i := range m.keys {
		if !m.dead[i] {
			live = append(live, i)
		}
	}
	n := len(live)
	nperm := 1
	for i := 2; i <= n; i++ {
		nperm *= i
	}
	t := in.freshAtom("maporder", 8)
	in.assumeCond(Sym{in.tt.Cmp(OpUlt, t, in.tt.Const(8, uint64(nperm))), types.Bool})
	k := int(in.concretize(t, "map-order"))
	// k-th permutation
	idx := append([]int(nil), live...)
	sort.Ints(idx)
	var out []int
	for i := n; i >= 1; i-- {
		f := 1
		for q := 2; q < i; q++ {
			f *= q
		}
		out = append(out, idx[k/f])
		idx = append(idx[:k/f], idx[k/f+1:]...)
		k %= f
	}
	return out
}

// monitorAlloc is called for make() with a symbolic size.
func (in *interp) monitorAlloc(s Sym, at ssa.Instruction) {
	if in.path == nil {
		return
	}
	lim := in.path.allocLimit
	if lim <= 0 {
		return
	}
	t := s.T
	if t.W < 64 {
		if kindSigned(s.K) {
			t = in.tt.Sext(t, 64)
		} else {
			t = in.tt.Zext(t, 64)
		}
	}
	// a negative size panics in Go (handled by the caller); here: size > limit
	tooBig := in.tt.And(in.tt.Cmp(OpSle, in.tt.Const(64, 0), t), in.tt.Cmp(OpSlt, in.tt.Const(64, uint64(lim)), t))
	if tooBig.IsConst() && tooBig.val == 0 {
		return
	}
	in.checkAssert(in.symBool(in.tt.Not(tooBig)), fmt.Sprintf("alloc-bounded@%s", in.posString(at.Pos())))
}
