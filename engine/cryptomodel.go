package main

// Cryptographic primitives: the standard library's portable Go
// implementations are interpreted (the assembly entry points are redirected
// to their generic twins); helpers built on unsafe get native models.
// crypto/rand is replaced by the harness (verifrt.RandReader) where
// randomness matters; the default model returns fresh symbolic bytes.

import (
	"crypto/aes"
	"crypto/cipher"
	"crypto/md5"
	"crypto/sha256"
	"crypto/sha512"
	"encoding"
	"go/types"
	"hash"
	"sync"

	"golang.org/x/tools/go/ssa"
)

func (in *interp) pkgFunc(pkg, name string) *ssa.Function {
	p := in.prog.ImportedPackage(pkg)
	if p == nil {
		return nil
	}
	return p.Func(name)
}

func redirect(pkg, name string) externalFn {
	return func(fr *frame, args []value) (value, bool) {
		f := fr.in.pkgFunc(pkg, name)
		if f == nil {
			panic(fr.in.unsupported("missing generic implementation " + pkg + "." + name))
		}
		return done(fr.in.call(fr, 0, f, args))
	}
}

// hashBlock runs a compression function natively when state and data are
// concrete (the state is injected into the host implementation through its
// binary marshalling), and falls back to the interpreted generic code.
func hashBlock(kind string, pkg string) externalFn {
	generic := redirect(pkg, "blockGeneric")
	return func(fr *frame, args []value) (value, bool) {
		in := fr.in
		dig := (*cellOf(args[0])).(structure)
		harr := dig[0].(array)
		data, ok := hostBytes(args[1])
		if !ok {
			return generic(fr, args)
		}
		var h hash.Hash
		var magic string
		wordBytes, bufLen := 4, 64
		switch kind {
		case "md5":
			h, magic = md5.New(), "md5\x01"
		case "sha256":
			h, magic = sha256.New(), "sha\x03"
		case "sha512":
			h, magic = sha512.New(), "sha\x07"
			wordBytes, bufLen = 8, 128
		}
		if len(data)%bufLen != 0 {
			return generic(fr, args)
		}
		st := []byte(magic)
		for _, w := range harr {
			_, u, okw := unboxInt(w)
			if !okw {
				return generic(fr, args)
			}
			for k := wordBytes - 1; k >= 0; k-- {
				st = append(st, byte(u>>(8*uint(k))))
			}
		}
		st = append(st, make([]byte, bufLen+8)...)
		if err := h.(encoding.BinaryUnmarshaler).UnmarshalBinary(st); err != nil {
			return generic(fr, args)
		}
		h.Write(data)
		out, err := h.(encoding.BinaryMarshaler).MarshalBinary()
		if err != nil {
			return generic(fr, args)
		}
		pos := len(magic)
		for i := range harr {
			var u uint64
			for k := 0; k < wordBytes; k++ {
				u = u<<8 | uint64(out[pos])
				pos++
			}
			if wordBytes == 4 {
				in.setCell(&harr[i], uint32(u))
			} else {
				in.setCell(&harr[i], u)
			}
		}
		return done(nil)
	}
}

var hostAES = map[string]cipher.Block{}

// aesBlock runs one AES block operation natively when everything is
// concrete: the key is recovered from the first words of the schedule.
func aesBlock(encrypt bool) externalFn {
	return func(fr *frame, args []value) (value, bool) {
		in := fr.in
		c := (*cellOf(args[0])).(structure) // blockExpanded{rounds int; enc, dec [60]uint32}
		rounds := int(asInt64(c[0]))
		enc := c[1].(array)
		nk := rounds - 6
		if nk != 4 && nk != 6 && nk != 8 {
			return nil, false
		}
		key := make([]byte, 0, 4*nk)
		for i := 0; i < nk; i++ {
			w, ok := enc[i].(uint32)
			if !ok {
				panic(in.unsupported("AES with a symbolic key"))
			}
			key = append(key, byte(w>>24), byte(w>>16), byte(w>>8), byte(w))
		}
		dst := args[1].([]value)
		src, ok := hostBytes(args[2].([]value)[:16])
		if !ok {
			// AES of symbolic data is not encodable (nested S-box lookups):
			// such a path is reported as not covered
			panic(in.unsupported("AES block operation on symbolic data"))
		}
		hostAESmu.Lock()
		blk := hostAES[string(key)]
		if blk == nil {
			blk, _ = aes.NewCipher(key)
			if len(hostAES) > 4096 {
				hostAES = map[string]cipher.Block{}
			}
			hostAES[string(key)] = blk
		}
		hostAESmu.Unlock()
		var out [16]byte
		if encrypt {
			blk.Encrypt(out[:], src)
		} else {
			blk.Decrypt(out[:], src)
		}
		for i := 0; i < 16; i++ {
			in.setCell(&dst[i], out[i])
		}
		return done(nil)
	}
}

var hostAESmu sync.Mutex

func init() {
	nop := func(fr *frame, args []value) (value, bool) { return done(nil) }
	externals["crypto/md5.block"] = hashBlock("md5", "crypto/md5")
	externals["crypto/internal/fips140/sha256.block"] = hashBlock("sha256", "crypto/internal/fips140/sha256")
	externals["crypto/internal/fips140/sha512.block"] = hashBlock("sha512", "crypto/internal/fips140/sha512")
	externals["crypto/sha1.block"] = redirect("crypto/sha1", "blockGeneric")
	externals["crypto/internal/fips140/aes.encryptBlockGeneric"] = aesBlock(true)
	externals["crypto/internal/fips140/aes.decryptBlockGeneric"] = aesBlock(false)
	externals["crypto/internal/boring/sig.StandardCrypto"] = nop
	externals["crypto/internal/boring/sig.BoringCrypto"] = nop
	externals["crypto/internal/boring/sig.FIPSOnly"] = nop
	externals["crypto/internal/fips140.RecordApproved"] = nop
	externals["crypto/internal/fips140.RecordNonApproved"] = nop
	externals["crypto/internal/fips140only.Enabled"] = nop
	falseFn := func(fr *frame, args []value) (value, bool) { return done(false) }
	externals["crypto/internal/fips140/alias.InexactOverlap"] = falseFn
	externals["crypto/internal/fips140/alias.AnyOverlap"] = falseFn
	externals["crypto/internal/alias.InexactOverlap"] = falseFn
	externals["crypto/internal/alias.AnyOverlap"] = falseFn
	xorBytes := func(fr *frame, args []value) (value, bool) {
		in := fr.in
		dst, x, y := args[0].([]value), args[1].([]value), args[2].([]value)
		n := min(len(x), len(y))
		if n == 0 {
			return done(0)
		}
		if n > len(dst) {
			panic(targetPanic{iface{types.Typ[types.String], "subtle.XORBytes: dst too short"}})
		}
		tmp := make([]value, n)
		for i := 0; i < n; i++ {
			tmp[i] = in.binop(tokenXOR, types.Typ[types.Uint8], x[i], y[i])
		}
		for i := 0; i < n; i++ {
			in.setCell(&dst[i], tmp[i])
		}
		return done(n)
	}
	externals["crypto/internal/fips140/subtle.XORBytes"] = xorBytes
	externals["crypto/subtle.XORBytes"] = xorBytes
	externals["crypto/internal/fips140/subtle.xorBytes"] = nil
	delete(externals, "crypto/internal/fips140/subtle.xorBytes")

	// crypto/rand default (harnesses install verifrt.RandReader instead, so
	// that native replays see the same bytes): fixed concrete bytes
	externals["(*crypto/rand.reader).Read"] = func(fr *frame, args []value) (value, bool) {
		b := args[1].([]value)
		for i := range b {
			fr.in.setCell(&b[i], fr.in.fixedDraw("rand"))
		}
		return done(tuple{len(b), iface{}})
	}
}
