package main

// Value representation of the symbolic interpreter.  The concrete part
// follows golang.org/x/tools/go/ssa/interp (BSD licence, The Go Authors): all
// values are boxed in `value`; the dynamic types are
//
//   bool, int…uint64, uintptr, float32, float64, complex128, string  (concrete)
//   Sym            symbolic bool / integer (SMT term + Go basic kind)
//   *SymStr        string with (some) symbolic bytes, concrete length
//   []value        slice          array          array value
//   structure      struct         iface          interface value
//   *value         pointer        symPtr         pointer to slice[symbolic index]
//   *Map           map            *Chan          channel
//   *ssa.Function, *ssa.Builtin, *closure   functions
//   tuple, iter, rtype, native, bad

import (
	"fmt"
	"go/types"
	"math"
	"strings"

	"golang.org/x/tools/go/ssa"
)

type value any

type tuple []value
type array []value
type structure []value

type iface struct {
	t types.Type
	v value
}

type closure struct {
	Fn  *ssa.Function
	Env []value
}

type bad struct{}

type rtype struct{ t types.Type }

// native wraps a host object (e.g. *regexp.Regexp) as an opaque value.
type native struct{ v any }

// Sym is a symbolic scalar.
type Sym struct {
	T *Term
	K types.BasicKind
}

// SymStr is a string of concrete length whose bytes may be symbolic.
type SymStr struct{ B []value }

// symPtr is &base[idx] for a symbolic in-range index.
type symPtr struct {
	base []value
	idx  *Term // width 64
}

type iter interface{ next(in *interp) tuple }

func kindWidth(k types.BasicKind) uint8 {
	switch k {
	case types.Bool, types.UntypedBool:
		return 0
	case types.Int8, types.Uint8:
		return 8
	case types.Int16, types.Uint16:
		return 16
	case types.Int32, types.Uint32, types.UntypedRune:
		return 32
	case types.Int, types.Int64, types.Uint, types.Uint64, types.Uintptr, types.UntypedInt:
		return 64
	}
	return 0
}

func kindSigned(k types.BasicKind) bool {
	switch k {
	case types.Int, types.Int8, types.Int16, types.Int32, types.Int64, types.UntypedInt, types.UntypedRune:
		return true
	}
	return false
}

func isIntKind(k types.BasicKind) bool {
	switch k {
	case types.Int, types.Int8, types.Int16, types.Int32, types.Int64,
		types.Uint, types.Uint8, types.Uint16, types.Uint32, types.Uint64, types.Uintptr,
		types.UntypedInt, types.UntypedRune:
		return true
	}
	return false
}

// unboxInt returns kind and (sign- or zero-extended) 64-bit pattern of a
// concrete integer value.
func unboxInt(v value) (types.BasicKind, uint64, bool) {
	switch x := v.(type) {
	case int:
		return types.Int, uint64(x), true
	case uint8:
		return types.Uint8, uint64(x), true
	case int64:
		return types.Int64, uint64(x), true
	case int32:
		return types.Int32, uint64(int64(x)), true
	case uint32:
		return types.Uint32, uint64(x), true
	case uint64:
		return types.Uint64, x, true
	case uint:
		return types.Uint, uint64(x), true
	case uint16:
		return types.Uint16, uint64(x), true
	case int16:
		return types.Int16, uint64(int64(x)), true
	case int8:
		return types.Int8, uint64(int64(x)), true
	case uintptr:
		return types.Uintptr, uint64(x), true
	}
	return 0, 0, false
}

func boxInt(k types.BasicKind, u uint64) value {
	switch k {
	case types.Int, types.UntypedInt:
		return int(u)
	case types.Int8:
		return int8(u)
	case types.Int16:
		return int16(u)
	case types.Int32, types.UntypedRune:
		return int32(u)
	case types.Int64:
		return int64(u)
	case types.Uint:
		return uint(u)
	case types.Uint8:
		return uint8(u)
	case types.Uint16:
		return uint16(u)
	case types.Uint32:
		return uint32(u)
	case types.Uint64:
		return u
	case types.Uintptr:
		return uintptr(u)
	}
	panic(fmt.Sprintf("boxInt: kind %v", k))
}

// asInt64 converts a concrete integer to int64.
func asInt64(x value) int64 {
	if _, u, ok := unboxInt(x); ok {
		return int64(u)
	}
	panic(fmt.Sprintf("cannot convert %T to int64", x))
}

func isSym(v value) bool {
	switch v.(type) {
	case Sym, *SymStr:
		return true
	}
	return false
}

// strLen returns the length of a string value.
func strLen(v value) int {
	switch s := v.(type) {
	case string:
		return len(s)
	case *SymStr:
		return len(s.B)
	}
	panic(fmt.Sprintf("strLen: %T", v))
}

// strBytes returns the bytes of a string value as a fresh []value.
func strBytes(v value) []value {
	switch s := v.(type) {
	case string:
		r := make([]value, len(s))
		for i := 0; i < len(s); i++ {
			r[i] = s[i]
		}
		return r
	case *SymStr:
		return append([]value(nil), s.B...)
	}
	panic(fmt.Sprintf("strBytes: %T", v))
}

// mkString builds a string value from bytes (host string if all concrete).
func mkString(b []value) value {
	conc := true
	for _, x := range b {
		if _, ok := x.(uint8); !ok {
			conc = false
			break
		}
	}
	if conc {
		var sb strings.Builder
		sb.Grow(len(b))
		for _, x := range b {
			sb.WriteByte(x.(uint8))
		}
		return sb.String()
	}
	return &SymStr{B: append([]value(nil), b...)}
}

// ---------------------------------------------------------------- zero

func zero(t types.Type) value {
	switch t := t.(type) {
	case *types.Basic:
		if t.Info()&types.IsUntyped != 0 {
			if t.Kind() == types.UntypedNil {
				panic("untyped nil has no zero value")
			}
			t = types.Default(t).(*types.Basic)
		}
		switch t.Kind() {
		case types.Bool:
			return false
		case types.Float32:
			return float32(0)
		case types.Float64:
			return float64(0)
		case types.Complex64, types.Complex128:
			return complex128(0)
		case types.String:
			return ""
		case types.UnsafePointer:
			return (*value)(nil)
		default:
			return boxInt(t.Kind(), 0)
		}
	case *types.Pointer:
		return (*value)(nil)
	case *types.Array:
		a := make(array, t.Len())
		for i := range a {
			a[i] = zero(t.Elem())
		}
		return a
	case *types.Named:
		return zero(t.Underlying())
	case *types.Alias:
		return zero(types.Unalias(t))
	case *types.Interface:
		return iface{}
	case *types.Slice:
		return []value(nil)
	case *types.Struct:
		s := make(structure, t.NumFields())
		for i := range s {
			s[i] = zero(t.Field(i).Type())
		}
		return s
	case *types.Tuple:
		if t.Len() == 1 {
			return zero(t.At(0).Type())
		}
		s := make(tuple, t.Len())
		for i := range s {
			s[i] = zero(t.At(i).Type())
		}
		return s
	case *types.Chan:
		return (*Chan)(nil)
	case *types.Map:
		return (*Map)(nil)
	case *types.Signature:
		return (*ssa.Function)(nil)
	case *types.TypeParam:
		panic("zero of type parameter")
	}
	panic(fmt.Sprint("zero: unexpected ", t))
}

// ---------------------------------------------------------------- maps

// Map is an insertion-ordered map.  Concrete keys are indexed through a host
// map on a canonical key; keys containing symbolic parts are compared with
// the solver (fork on equality).
type Map struct {
	keys    []value
	vals    []value
	dead    []bool
	idx     map[any]int
	n       int
	hasSym  bool
	keyType types.Type
}

func newMap(kt types.Type) *Map {
	return &Map{idx: map[any]int{}, keyType: kt}
}

// hkey returns a canonical host key for a fully concrete value.
func hkey(v value) (any, bool) {
	switch x := v.(type) {
	case bool, int, int8, int16, int32, int64, uint, uint8, uint16, uint32, uint64, uintptr, string, float32, *value, *Chan, *Map:
		return x, true
	case float64:
		if x != x {
			return nil, false
		}
		return x, true
	case Sym, *SymStr:
		return nil, false
	case iface:
		if x.t == nil {
			return "<nil-iface>", true
		}
		k, ok := hkey(x.v)
		if !ok {
			return nil, false
		}
		return fmt.Sprintf("I:%s:%T:%v", typeKey(x.t), k, k), true
	case structure:
		var sb strings.Builder
		sb.WriteString("S{")
		for _, f := range x {
			k, ok := hkey(f)
			if !ok {
				return nil, false
			}
			fmt.Fprintf(&sb, "%T:%v;", k, k)
		}
		sb.WriteString("}")
		return sb.String(), true
	case array:
		var sb strings.Builder
		sb.WriteString("A[")
		for _, f := range x {
			k, ok := hkey(f)
			if !ok {
				return nil, false
			}
			fmt.Fprintf(&sb, "%T:%v;", k, k)
		}
		sb.WriteString("]")
		return sb.String(), true
	case rtype:
		return "T:" + typeKey(x.t), true
	case native:
		return x.v, true
	case *ssa.Function:
		return x, true
	}
	return nil, false
}

var typeKeyCache = map[types.Type]string{}

func typeKey(t types.Type) string {
	return types.TypeString(t, nil)
}

// find locates key k; it may fork on symbolic equality.
func (m *Map) find(in *interp, k value) int {
	if m == nil {
		return -1
	}
	hk, conc := hkey(k)
	if conc {
		if i, ok := m.idx[hk]; ok {
			return i
		}
		if !m.hasSym {
			return -1
		}
	}
	// compare with symbolic-keyed entries (or all entries if k is symbolic)
	for i := range m.keys {
		if m.dead[i] {
			continue
		}
		if conc {
			if _, kc := hkey(m.keys[i]); kc {
				continue // concrete vs concrete already handled by idx
			}
		}
		eq := in.equals(m.keyType, m.keys[i], k)
		if in.truth(eq) {
			return i
		}
	}
	return -1
}

func (m *Map) lookup(in *interp, k value) (value, bool) {
	if in.sched != nil && m != nil {
		in.raceCheck(m, false)
	}
	i := m.find(in, k)
	if i < 0 {
		return nil, false
	}
	return m.vals[i], true
}

func (m *Map) insert(in *interp, k, v value) {
	if in.sched != nil {
		in.raceCheck(m, true)
	}
	i := m.find(in, k)
	if i >= 0 {
		old := m.vals[i]
		in.logUndo(func() { m.vals[i] = old })
		m.vals[i] = v
		return
	}
	hk, conc := hkey(k)
	pos := len(m.keys)
	oldSym := m.hasSym
	m.keys = append(m.keys, k)
	m.vals = append(m.vals, v)
	m.dead = append(m.dead, false)
	m.n++
	if conc {
		m.idx[hk] = pos
	} else {
		m.hasSym = true
	}
	in.logUndo(func() {
		m.keys = m.keys[:pos]
		m.vals = m.vals[:pos]
		m.dead = m.dead[:pos]
		m.n--
		if conc {
			delete(m.idx, hk)
		}
		m.hasSym = oldSym
	})
}

func (m *Map) delete(in *interp, k value) {
	if in.sched != nil && m != nil {
		in.raceCheck(m, true)
	}
	i := m.find(in, k)
	if i < 0 {
		return
	}
	m.dead[i] = true
	m.n--
	hk, conc := hkey(m.keys[i])
	if conc {
		delete(m.idx, hk)
	}
	in.logUndo(func() {
		m.dead[i] = false
		m.n++
		if conc {
			m.idx[hk] = i
		}
	})
}

func (m *Map) clear(in *interp) {
	if m == nil {
		return
	}
	for i := range m.keys {
		if !m.dead[i] {
			m.delete(in, m.keys[i])
		}
	}
}

func (m *Map) len() int {
	if m == nil {
		return 0
	}
	return m.n
}

type mapIter struct {
	m     *Map
	i     int
	order []int // optional permutation
}

func (it *mapIter) next(in *interp) tuple {
	m := it.m
	if m == nil {
		return tuple{false, nil, nil}
	}
	if it.order != nil {
		for it.i < len(it.order) {
			j := it.order[it.i]
			it.i++
			if j < len(m.keys) && !m.dead[j] {
				return tuple{true, m.keys[j], m.vals[j]}
			}
		}
		return tuple{false, nil, nil}
	}
	for it.i < len(m.keys) {
		j := it.i
		it.i++
		if !m.dead[j] {
			return tuple{true, m.keys[j], m.vals[j]}
		}
	}
	return tuple{false, nil, nil}
}

// ---------------------------------------------------------------- strings iter

type stringIter struct {
	b []value
	i int
}

func (it *stringIter) next(in *interp) tuple {
	if it.i >= len(it.b) {
		return tuple{false, nil, nil}
	}
	start := it.i
	b0 := it.b[it.i]
	// symbolic lead byte: fork on ASCII / non-ASCII
	if s, ok := b0.(Sym); ok {
		tt := in.tt
		if in.truth(Sym{tt.Cmp(OpUlt, s.T, tt.Const(8, 0x80)), types.Bool}) {
			it.i++
			return tuple{true, start, Sym{tt.Zext(s.T, 32), types.Int32}}
		}
		// non-ASCII symbolic byte: concretise the bytes of this rune
		it.b[it.i] = uint8(in.concretize(s.T, "utf8-lead"))
	}
	// decode with concretisation of continuation bytes as needed
	c0 := it.b[it.i].(uint8)
	need := 1
	switch {
	case c0 < 0x80:
		need = 1
	case c0&0xE0 == 0xC0:
		need = 2
	case c0&0xF0 == 0xE0:
		need = 3
	case c0&0xF8 == 0xF0:
		need = 4
	}
	buf := []byte{c0}
	for k := 1; k < need && it.i+k < len(it.b); k++ {
		switch x := it.b[it.i+k].(type) {
		case uint8:
			buf = append(buf, x)
		case Sym:
			c := uint8(in.concretize(x.T, "utf8-cont"))
			it.b[it.i+k] = c
			buf = append(buf, c)
		}
	}
	r, n := decodeRune(buf)
	it.i += n
	return tuple{true, start, r}
}

func decodeRune(b []byte) (rune, int) {
	r, n := rune(0xFFFD), 1
	for i, c := range string(b) {
		if i == 0 {
			r = c
			n = len(string(c))
			if c == 0xFFFD {
				// could be a real U+FFFD (3 bytes) or an error (1 byte)
				if len(b) >= 3 && b[0] == 0xEF && b[1] == 0xBF && b[2] == 0xBD {
					n = 3
				} else {
					n = 1
				}
			}
		}
		break
	}
	return r, n
}

// ---------------------------------------------------------------- channels

// Chan is a channel for the cooperative goroutine scheduler.
type Chan struct {
	buf    []value
	cap    int
	closed bool
	elem   types.Type
	id     int
}

// ---------------------------------------------------------------- printing

func toString(v value) string {
	var sb strings.Builder
	writeValue(&sb, v, 0)
	return sb.String()
}

func writeValue(sb *strings.Builder, v value, d int) {
	if d > 4 {
		sb.WriteString("…")
		return
	}
	switch v := v.(type) {
	case nil:
		sb.WriteString("<nil>")
	case bool, int, int8, int16, int32, int64, uint, uint8, uint16, uint32, uint64, uintptr, float32, float64, complex128:
		fmt.Fprintf(sb, "%v", v)
	case string:
		fmt.Fprintf(sb, "%q", v)
	case Sym:
		sb.WriteString("sym:" + v.T.String())
	case *SymStr:
		sb.WriteString("symstr[")
		for i, b := range v.B {
			if i > 0 {
				sb.WriteByte(' ')
			}
			writeValue(sb, b, d+1)
		}
		sb.WriteString("]")
	case *Map:
		sb.WriteString("map[")
		if v != nil {
			first := true
			for i := range v.keys {
				if v.dead[i] {
					continue
				}
				if !first {
					sb.WriteByte(' ')
				}
				first = false
				writeValue(sb, v.keys[i], d+1)
				sb.WriteByte(':')
				writeValue(sb, v.vals[i], d+1)
			}
		}
		sb.WriteString("]")
	case *value:
		if v == nil {
			sb.WriteString("<nil>")
		} else {
			fmt.Fprintf(sb, "&")
			writeValue(sb, *v, d+1)
		}
	case iface:
		if v.t == nil {
			sb.WriteString("<nil>")
		} else {
			fmt.Fprintf(sb, "(%s)", v.t)
			writeValue(sb, v.v, d+1)
		}
	case structure:
		sb.WriteString("{")
		for i, e := range v {
			if i > 0 {
				sb.WriteString(" ")
			}
			writeValue(sb, e, d+1)
		}
		sb.WriteString("}")
	case array:
		sb.WriteString("[")
		for i, e := range v {
			if i > 16 {
				sb.WriteString("…")
				break
			}
			if i > 0 {
				sb.WriteString(" ")
			}
			writeValue(sb, e, d+1)
		}
		sb.WriteString("]")
	case []value:
		sb.WriteString("[")
		for i, e := range v {
			if i > 16 {
				sb.WriteString("…")
				break
			}
			if i > 0 {
				sb.WriteString(" ")
			}
			writeValue(sb, e, d+1)
		}
		sb.WriteString("]")
	case *ssa.Function:
		if v == nil {
			sb.WriteString("<nil func>")
		} else {
			sb.WriteString(v.String())
		}
	case *closure:
		sb.WriteString("closure:" + v.Fn.String())
	case rtype:
		sb.WriteString(v.t.String())
	case tuple:
		sb.WriteString("(")
		for i, e := range v {
			if i > 0 {
				sb.WriteString(", ")
			}
			writeValue(sb, e, d+1)
		}
		sb.WriteString(")")
	default:
		fmt.Fprintf(sb, "<%T>", v)
	}
}

var _ = math.MaxInt
