package main

// Loading: overlay construction from /verif/harness, go/packages, go/ssa.

import (
	"encoding/json"
	"fmt"
	"os"
	"path/filepath"
	"sort"
	"strings"
	"time"

	"golang.org/x/tools/go/packages"
	"golang.org/x/tools/go/ssa"
	"golang.org/x/tools/go/ssa/ssautil"
)

const repoModule = "seehuhn.de/go/pdf"

type loaded struct {
	prog     *ssa.Program
	pkgs     map[string]*ssa.Package // by import path
	overlay  map[string][]byte       // virtual path -> content
	realOf   map[string]string       // virtual path -> real file (for go test -overlay)
	loadTime time.Duration
	repoDir  string
}

// buildOverlay maps every file under harnessDir/<rel>/ to repoDir/<rel>/.
// Only the directories in rels (plus internal/verifrt) are used.
func buildOverlay(repoDir, harnessDir string, rels []string) (map[string][]byte, map[string]string, error) {
	ov := map[string][]byte{}
	realOf := map[string]string{}
	add := func(rel string) error {
		dir := filepath.Join(harnessDir, rel)
		ents, err := os.ReadDir(dir)
		if err != nil {
			return err
		}
		real := realRel(rel)
		for _, e := range ents {
			if e.Name() == "patch.json" {
				if err := applyPatches(repoDir, real, filepath.Join(dir, e.Name()), ov, realOf); err != nil {
					return err
				}
				continue
			}
			if e.IsDir() || !strings.HasSuffix(e.Name(), ".go") {
				continue
			}
			b, err := os.ReadFile(filepath.Join(dir, e.Name()))
			if err != nil {
				return err
			}
			virt := filepath.Join(repoDir, real, e.Name())
			if _, err := os.Stat(virt); err == nil {
				return fmt.Errorf("overlay file %s would shadow a repository file", virt)
			}
			ov[virt] = b
			realOf[virt] = filepath.Join(dir, e.Name())
		}
		return nil
	}
	if err := add("internal/verifrt"); err != nil {
		return nil, nil, err
	}
	for _, r := range rels {
		if err := add(r); err != nil {
			return nil, nil, err
		}
	}
	return ov, realOf, nil
}

// realRel strips the variant suffix ("dir@variant") of a harness directory.
func realRel(rel string) string {
	if i := strings.IndexByte(rel, '@'); i >= 0 {
		rel = rel[:i]
	}
	if rel == "" {
		return "."
	}
	return rel
}

type patchSpec struct {
	File    string `json:"file"`
	Find    string `json:"find"`
	Replace string `json:"replace"`
	All     bool   `json:"all,omitempty"` // replace every occurrence (at least one)
}

var patchTmp string

// applyPatches builds reduced-parameter variants of repository files: the
// current file with one checked textual substitution each (it must match
// exactly once, otherwise the check fails loudly).
func applyPatches(repoDir, rel, specFile string, ov map[string][]byte, realOf map[string]string) error {
	b, err := os.ReadFile(specFile)
	if err != nil {
		return err
	}
	var specs []patchSpec
	if err := json.Unmarshal(b, &specs); err != nil {
		return fmt.Errorf("%s: %v", specFile, err)
	}
	if patchTmp == "" {
		patchTmp, err = os.MkdirTemp("", "gosym-patch-")
		if err != nil {
			return err
		}
	}
	for i, sp := range specs {
		virt := filepath.Join(repoDir, rel, sp.File)
		src, ok := ov[virt]
		if !ok {
			src, err = os.ReadFile(virt)
			if err != nil {
				return err
			}
		}
		n := strings.Count(string(src), sp.Find)
		if (!sp.All && n != 1) || (sp.All && n < 1) {
			return fmt.Errorf("patch %s: %q occurs %d times in %s", specFile, sp.Find, n, virt)
		}
		out := []byte(strings.ReplaceAll(string(src), sp.Find, sp.Replace))
		ov[virt] = out
		tmp := filepath.Join(patchTmp, fmt.Sprintf("%s_%d_%s", strings.ReplaceAll(rel, "/", "_"), i, sp.File))
		if err := os.WriteFile(tmp, out, 0o644); err != nil {
			return err
		}
		realOf[virt] = tmp
	}
	return nil
}

func pkgPathOf(rel string) string {
	rel = realRel(rel)
	if rel == "." || rel == "" {
		return repoModule
	}
	return repoModule + "/" + filepath.ToSlash(rel)
}

func loadProgram(repoDir string, overlay map[string][]byte, realOf map[string]string, rels []string) (*loaded, error) {
	t0 := time.Now()
	cfg := &packages.Config{
		Mode:       packages.LoadAllSyntax,
		Dir:        repoDir,
		Env:        append(os.Environ(), "GOFLAGS=-mod=mod", "GOPROXY=off"),
		BuildFlags: []string{"-tags=verif"},
		Overlay:    overlay,
	}
	var patterns []string
	for _, r := range rels {
		patterns = append(patterns, pkgPathOf(r))
	}
	patterns = append(patterns, verifrtPath)
	pkgs, err := packages.Load(cfg, patterns...)
	if err != nil {
		return nil, err
	}
	var errs []string
	packages.Visit(pkgs, nil, func(p *packages.Package) {
		for _, e := range p.Errors {
			errs = append(errs, e.Error())
		}
	})
	if len(errs) > 0 {
		sort.Strings(errs)
		if len(errs) > 20 {
			errs = errs[:20]
		}
		return nil, fmt.Errorf("package load errors:\n  %s", strings.Join(errs, "\n  "))
	}
	prog, _ := ssautil.AllPackages(pkgs, ssa.InstantiateGenerics)
	prog.Build()
	l := &loaded{prog: prog, pkgs: map[string]*ssa.Package{}, overlay: overlay, realOf: realOf, repoDir: repoDir}
	for _, p := range prog.AllPackages() {
		l.pkgs[p.Pkg.Path()] = p
	}
	l.loadTime = time.Since(t0)
	return l, nil
}

// writeOverlayJSON writes a go-build overlay file; extra maps additional
// virtual paths to real files.
func writeOverlayJSON(path string, realOf map[string]string, extra map[string]string) error {
	m := map[string]string{}
	for k, v := range realOf {
		m[k] = v
	}
	for k, v := range extra {
		m[k] = v
	}
	b, err := json.MarshalIndent(map[string]any{"Replace": m}, "", " ")
	if err != nil {
		return err
	}
	return os.WriteFile(path, b, 0o644)
}

// harnessFuncs lists the functions named Verif_<id>_* in the given package.
func harnessFuncs(p *ssa.Package, id string) []*ssa.Function {
	var out []*ssa.Function
	prefix := "Verif_" + id + "_"
	for name, m := range p.Members {
		if f, ok := m.(*ssa.Function); ok && strings.HasPrefix(name, prefix) {
			out = append(out, f)
		}
	}
	sort.Slice(out, func(i, j int) bool { return out[i].Name() < out[j].Name() })
	return out
}
