package main

// Loading: overlay construction from /verif/harness, go/packages, go/ssa.

import (
	"encoding/json"
	"fmt"
	"os"
	"path/filepath"
	"sort"
	"strings"
	"time"

	"golang.org/x/tools/go/packages"
	"golang.org/x/tools/go/ssa"
	"golang.org/x/tools/go/ssa/ssautil"
)

const repoModule = "seehuhn.de/go/pdf"

type loaded struct {
	prog     *ssa.Program
	pkgs     map[string]*ssa.Package // by import path
	overlay  map[string][]byte       // virtual path -> content
	realOf   map[string]string       // virtual path -> real file (for go test -overlay)
	loadTime time.Duration
	repoDir  string
}

// buildOverlay maps every file under harnessDir/<rel>/ to repoDir/<rel>/.
// Only the directories in rels (plus internal/verifrt) are used.
func buildOverlay(repoDir, harnessDir string, rels []string) (map[string][]byte, map[string]string, error) {
	ov := map[string][]byte{}
	realOf := map[string]string{}
	add := func(rel string) error {
		dir := filepath.Join(harnessDir, rel)
		ents, err := os.ReadDir(dir)
		if err != nil {
			return err
		}
		for _, e := range ents {
			if e.IsDir() || !strings.HasSuffix(e.Name(), ".go") {
				continue
			}
			b, err := os.ReadFile(filepath.Join(dir, e.Name()))
			if err != nil {
				return err
			}
			virt := filepath.Join(repoDir, rel, e.Name())
			if _, err := os.Stat(virt); err == nil {
				return fmt.Errorf("overlay file %s would shadow a repository file", virt)
			}
			ov[virt] = b
			realOf[virt] = filepath.Join(dir, e.Name())
		}
		return nil
	}
	if err := add("internal/verifrt"); err != nil {
		return nil, nil, err
	}
	for _, r := range rels {
		if err := add(r); err != nil {
			return nil, nil, err
		}
	}
	return ov, realOf, nil
}

func pkgPathOf(rel string) string {
	if rel == "." || rel == "" {
		return repoModule
	}
	return repoModule + "/" + filepath.ToSlash(rel)
}

func loadProgram(repoDir string, overlay map[string][]byte, realOf map[string]string, rels []string) (*loaded, error) {
	t0 := time.Now()
	cfg := &packages.Config{
		Mode:       packages.LoadAllSyntax,
		Dir:        repoDir,
		Env:        append(os.Environ(), "GOFLAGS=-mod=mod", "GOPROXY=off"),
		BuildFlags: []string{"-tags=verif"},
		Overlay:    overlay,
	}
	var patterns []string
	for _, r := range rels {
		patterns = append(patterns, pkgPathOf(r))
	}
	patterns = append(patterns, verifrtPath)
	pkgs, err := packages.Load(cfg, patterns...)
	if err != nil {
		return nil, err
	}
	var errs []string
	packages.Visit(pkgs, nil, func(p *packages.Package) {
		for _, e := range p.Errors {
			errs = append(errs, e.Error())
		}
	})
	if len(errs) > 0 {
		sort.Strings(errs)
		if len(errs) > 20 {
			errs = errs[:20]
		}
		return nil, fmt.Errorf("package load errors:\n  %s", strings.Join(errs, "\n  "))
	}
	prog, _ := ssautil.AllPackages(pkgs, ssa.InstantiateGenerics)
	prog.Build()
	l := &loaded{prog: prog, pkgs: map[string]*ssa.Package{}, overlay: overlay, realOf: realOf, repoDir: repoDir}
	for _, p := range prog.AllPackages() {
		l.pkgs[p.Pkg.Path()] = p
	}
	l.loadTime = time.Since(t0)
	return l, nil
}

// writeOverlayJSON writes a go-build overlay file; extra maps additional
// virtual paths to real files.
func writeOverlayJSON(path string, realOf map[string]string, extra map[string]string) error {
	m := map[string]string{}
	for k, v := range realOf {
		m[k] = v
	}
	for k, v := range extra {
		m[k] = v
	}
	b, err := json.MarshalIndent(map[string]any{"Replace": m}, "", " ")
	if err != nil {
		return err
	}
	return os.WriteFile(path, b, 0o644)
}

// harnessFuncs lists the functions named Verif_<id>_* in the given package.
func harnessFuncs(p *ssa.Package, id string) []*ssa.Function {
	var out []*ssa.Function
	prefix := "Verif_" + id + "_"
	for name, m := range p.Members {
		if f, ok := m.(*ssa.Function); ok && strings.HasPrefix(name, prefix) {
			out = append(out, f)
		}
	}
	sort.Slice(out, func(i, j int) bool { return out[i].Name() < out[j].Name() })
	return out
}
