package main

// Solver: one SMT solver process per worker, driven over a pipe in SMT-LIB2.
// Declarations are global (":global-declarations"), assertions follow
// push/pop.  Any "(error" line or "unknown" answer is inconclusive.

import (
	"bufio"
	"fmt"
	"io"
	"os"
	"os/exec"
	"strconv"
	"strings"
	"time"
)

type Result int

const (
	Unsat Result = iota
	Sat
	Unknown
)

func (r Result) String() string { return [...]string{"unsat", "sat", "unknown"}[r] }

type SolverStats struct {
	Queries, Sat, Unsat, Unknown int
	Time                         time.Duration
	MaxQuery                     time.Duration
	Restarts                     int
	Fallbacks                    int
	Errors                       int
	SendTime, ValueTime          time.Duration
}

type Solver struct {
	kind      string // "z3", "z3-new", "cvc5"
	timeoutMs int
	cmd       *exec.Cmd
	in        io.WriteCloser
	out       *bufio.Reader
	emitted   map[int32]bool
	emitOrder []*Term // terms emitted in order (for re-emission after restart)
	level     int
	stats     SolverStats
	log       io.Writer // optional transcript
	ufDecl    map[string]bool
	// activated side constraints per level
	sideAt []map[int32]bool
	dead   bool
	// assertion stack (for one-shot fallback queries)
	stack      [][]*Term
	fallback   string // solver kind used when the primary answers unknown
	fallbackMs int
	fbVals     map[int32]uint64 // model of the last fallback Sat answer
	fbActive   bool
	scoped     bool      // declarations are popped with their level (cvc5)
	declAt     [][]int32 // ids declared at each level (scoped solvers)
	ufAt       [][]string
}

func solverArgs(kind string, timeoutMs int) (string, []string) {
	switch kind {
	case "z3":
		return "/usr/bin/z3", []string{"-in", "-smt2", fmt.Sprintf("-t:%d", timeoutMs)}
	case "z3-new":
		return "z3-new", []string{"-in", "-smt2", fmt.Sprintf("-t:%d", timeoutMs)}
	case "cvc5":
		return "cvc5", []string{"--incremental", "--lang=smt2", "--produce-models", fmt.Sprintf("--tlimit-per=%d", timeoutMs)}
	}
	panic("unknown solver " + kind)
}

func NewSolver(kind string, timeoutMs int) (*Solver, error) {
	s := &Solver{kind: kind, timeoutMs: timeoutMs}
	if p := os.Getenv("GOSYM_SMTLOG"); p != "" {
		f, err := os.CreateTemp(p, "smt-*.smt2")
		if err == nil {
			s.log = f
		}
	}
	if err := s.start(); err != nil {
		return nil, err
	}
	return s, nil
}

func (s *Solver) start() error {
	bin, args := solverArgs(s.kind, s.timeoutMs)
	s.cmd = exec.Command(bin, args...)
	in, err := s.cmd.StdinPipe()
	if err != nil {
		return err
	}
	out, err := s.cmd.StdoutPipe()
	if err != nil {
		return err
	}
	s.cmd.Stderr = nil
	if err := s.cmd.Start(); err != nil {
		return err
	}
	s.in = in
	s.out = bufio.NewReaderSize(out, 1<<16)
	s.emitted = map[int32]bool{}
	s.emitOrder = nil
	s.ufDecl = map[string]bool{}
	s.level = 0
	s.stack = [][]*Term{nil}
	s.sideAt = []map[int32]bool{{}}
	s.dead = false
	s.scoped = s.kind == "cvc5"
	s.declAt = [][]int32{nil}
	s.ufAt = [][]string{nil}
	if s.kind != "cvc5" {
		s.send("(set-option :global-declarations true)")
		s.send("(set-option :produce-models true)")
	} else {
		s.send("(set-logic ALL)")
	}
	return nil
}

func (s *Solver) Close() {
	if s.cmd != nil && s.cmd.Process != nil {
		s.in.Close()
		s.cmd.Process.Kill()
		s.cmd.Wait()
	}
}

// Restart kills the solver process and starts a fresh one (level 0, nothing
// declared).  Used to bound solver memory.
func (s *Solver) Restart() error {
	s.Close()
	s.stats.Restarts++
	return s.start()
}

func (s *Solver) send(line string) {
	t0 := time.Now()
	defer func() { s.stats.SendTime += time.Since(t0) }()
	if s.log != nil {
		io.WriteString(s.log, line+"\n")
	}
	if _, err := io.WriteString(s.in, line+"\n"); err != nil {
		s.dead = true
	}
}

func (s *Solver) readLine() string {
	line, err := s.out.ReadString('\n')
	if err != nil {
		s.dead = true
		return "(error \"solver died\")"
	}
	return strings.TrimSpace(line)
}

// define makes sure t and everything below it is declared in the solver.
func (s *Solver) define(t *Term) {
	if t.op == OpConst || s.emitted[t.id] {
		return
	}
	// iterative post-order to avoid deep recursion
	type fr struct {
		t *Term
		i int
	}
	stack := []fr{{t, 0}}
	for len(stack) > 0 {
		top := &stack[len(stack)-1]
		if top.i < len(top.t.args) {
			a := top.t.args[top.i]
			top.i++
			if a.op != OpConst && !s.emitted[a.id] {
				stack = append(stack, fr{a, 0})
			}
			continue
		}
		x := top.t
		stack = stack[:len(stack)-1]
		if s.emitted[x.id] {
			continue
		}
		s.emitted[x.id] = true
		if s.scoped {
			s.declAt[s.level] = append(s.declAt[s.level], x.id)
		}
		switch x.op {
		case OpVar:
			s.send(fmt.Sprintf("(declare-const |%s| %s)", x.name, sortString(x.W)))
		case OpUF:
			if !s.ufDecl[x.name] {
				s.ufDecl[x.name] = true
				if s.scoped {
					s.ufAt[s.level] = append(s.ufAt[s.level], x.name)
				}
				var sb strings.Builder
				fmt.Fprintf(&sb, "(declare-fun |%s| (", x.name)
				for i, a := range x.args {
					if i > 0 {
						sb.WriteByte(' ')
					}
					sb.WriteString(sortString(a.W))
				}
				fmt.Fprintf(&sb, ") %s)", sortString(x.W))
				s.send(sb.String())
			}
			s.send(fmt.Sprintf("(define-fun n%d () %s %s)", x.id, sortString(x.W), x.body()))
		default:
			s.send(fmt.Sprintf("(define-fun n%d () %s %s)", x.id, sortString(x.W), x.body()))
		}
	}
}

// collectSide finds side constraints of atoms below t that are not yet
// active at the current level or below.
func (s *Solver) collectSide(t *Term, seen map[int32]bool, out *[]*Term) {
	if t.op == OpConst || seen[t.id] {
		return
	}
	seen[t.id] = true
	if t.side != nil {
		active := false
		for _, m := range s.sideAt {
			if m[t.id] {
				active = true
				break
			}
		}
		if !active {
			s.sideAt[s.level][t.id] = true
			for _, c := range t.side {
				*out = append(*out, c)
				s.collectSide(c, seen, out)
			}
		}
	}
	for _, a := range t.args {
		s.collectSide(a, seen, out)
	}
}

func (s *Solver) Push() {
	s.send("(push 1)")
	s.level++
	s.declAt = append(s.declAt, nil)
	s.ufAt = append(s.ufAt, nil)
	s.stack = append(s.stack, nil)
	s.sideAt = append(s.sideAt, map[int32]bool{})
}

func (s *Solver) Pop() {
	s.send("(pop 1)")
	if s.scoped {
		for _, id := range s.declAt[s.level] {
			delete(s.emitted, id)
		}
		for _, n := range s.ufAt[s.level] {
			delete(s.ufDecl, n)
		}
	}
	s.declAt = s.declAt[:s.level]
	s.ufAt = s.ufAt[:s.level]
	s.level--
	s.stack = s.stack[:len(s.stack)-1]
	s.sideAt = s.sideAt[:len(s.sideAt)-1]
}

func (s *Solver) Assert(t *Term) {
	if t.W != 0 {
		panic("assert of non-bool")
	}
	var side []*Term
	s.collectSide(t, map[int32]bool{}, &side)
	for _, c := range side {
		s.define(c)
		s.send("(assert " + c.ref() + ")")
		s.stack[s.level] = append(s.stack[s.level], c)
	}
	s.define(t)
	s.send("(assert " + t.ref() + ")")
	s.stack[s.level] = append(s.stack[s.level], t)
}

func (s *Solver) Check() Result {
	t0 := time.Now()
	s.send("(check-sat)")
	res := Unknown
	sawError := false
	for {
		line := s.readLine()
		if strings.HasPrefix(line, "(error") {
			// an error may stem from an earlier command (e.g. a push cancelled
			// by the soft timeout): the solver's stack can no longer be
			// trusted
			if !sawError && s.stats.Errors < 3 {
				fmt.Fprintf(os.Stderr, "solver protocol error: %s\n", line)
			}
			sawError = true
			if s.dead {
				break
			}
			continue
		}
		if line == "sat" {
			res = Sat
			break
		}
		if line == "unsat" {
			res = Unsat
			break
		}
		if line == "unknown" || strings.HasPrefix(line, "timeout") {
			res = Unknown
			break
		}
		if s.dead {
			break
		}
	}
	s.fbActive = false
	if sawError || s.dead {
		res = Unknown
		s.stats.Errors++
		s.restartAndReplay()
	}
	if res == Unknown && s.fallback != "" {
		res = s.oneShot()
		s.stats.Fallbacks++
	}
	d := time.Since(t0)
	s.stats.Queries++
	s.stats.Time += d
	if d > s.stats.MaxQuery {
		s.stats.MaxQuery = d
	}
	switch res {
	case Sat:
		s.stats.Sat++
	case Unsat:
		s.stats.Unsat++
	default:
		s.stats.Unknown++
	}
	return res
}

// GetValues fetches model values for the atoms; must follow a Sat answer.
func (s *Solver) GetValues(atoms []*Term, m *Model) bool {
	if len(atoms) == 0 {
		return true
	}
	t0 := time.Now()
	defer func() { s.stats.ValueTime += time.Since(t0) }()
	if s.fbActive {
		for _, a := range atoms {
			m.vals[a.id] = s.fbVals[a.id]
		}
		return true
	}
	const chunk = 200
	for i := 0; i < len(atoms); i += chunk {
		j := min(i+chunk, len(atoms))
		var sb strings.Builder
		sb.WriteString("(get-value (")
		for _, a := range atoms[i:j] {
			s.define(a)
		}
		for _, a := range atoms[i:j] {
			sb.WriteByte(' ')
			sb.WriteString(a.ref())
		}
		sb.WriteString("))")
		s.send(sb.String())
		txt := s.readSexp()
		if strings.HasPrefix(txt, "(error") {
			fmt.Fprintf(os.Stderr, "solver get-value error: %s\n", txt)
			return false
		}
		vals := parseValues(txt)
		if len(vals) != j-i {
			fmt.Fprintf(os.Stderr, "solver get-value: expected %d values, got %d: %.200s\n", j-i, len(vals), txt)
			return false
		}
		for k, a := range atoms[i:j] {
			m.vals[a.id] = vals[k]
		}
	}
	return true
}

// readSexp reads one balanced s-expression (possibly spanning lines).
func (s *Solver) readSexp() string {
	var sb strings.Builder
	depth := 0
	started := false
	inBar := false
	for {
		line, err := s.out.ReadString('\n')
		if err != nil {
			s.dead = true
			return "(error \"solver died\")"
		}
		for _, c := range line {
			switch {
			case c == '|':
				inBar = !inBar
			case inBar:
			case c == '(':
				depth++
				started = true
			case c == ')':
				depth--
			}
		}
		sb.WriteString(line)
		if started && depth <= 0 {
			break
		}
	}
	return strings.TrimSpace(sb.String())
}

// parseValues extracts the value literals, in order, from a get-value reply
// "((a #x01) (b true) ...)".
func parseValues(txt string) []uint64 {
	var out []uint64
	// tokenise
	i := 0
	n := len(txt)
	depth := 0
	var lastTok string
	for i < n {
		c := txt[i]
		switch {
		case c == '(':
			depth++
			// (_ bv5 8) form
			if strings.HasPrefix(txt[i:], "(_ bv") {
				j := i + 5
				k := j
				for k < n && txt[k] >= '0' && txt[k] <= '9' {
					k++
				}
				v, _ := strconv.ParseUint(txt[j:k], 10, 64)
				lastTok = "\x00" + strconv.FormatUint(v, 10)
				for k < n && txt[k] != ')' {
					k++
				}
				i = k + 1
				depth--
				continue
			}
			i++
		case c == ')':
			if depth == 2 && lastTok != "" {
				out = append(out, parseLit(lastTok))
				lastTok = ""
			}
			depth--
			i++
		case c == ' ' || c == '\n' || c == '\t' || c == '\r':
			i++
		case c == '|':
			j := i + 1
			for j < n && txt[j] != '|' {
				j++
			}
			lastTok = txt[i : j+1]
			i = j + 1
		default:
			j := i
			for j < n && txt[j] != ' ' && txt[j] != ')' && txt[j] != '(' && txt[j] != '\n' {
				j++
			}
			lastTok = txt[i:j]
			i = j
		}
	}
	return out
}

func parseLit(tok string) uint64 {
	switch {
	case tok == "true":
		return 1
	case tok == "false":
		return 0
	case strings.HasPrefix(tok, "#x"):
		v, _ := strconv.ParseUint(tok[2:], 16, 64)
		return v
	case strings.HasPrefix(tok, "#b"):
		v, _ := strconv.ParseUint(tok[2:], 2, 64)
		return v
	case strings.HasPrefix(tok, "\x00"):
		v, _ := strconv.ParseUint(tok[1:], 10, 64)
		return v
	}
	return 0
}

// restartAndReplay restarts a dead primary solver and re-asserts the stack.
func (s *Solver) restartAndReplay() {
	saved := s.stack
	s.Close()
	s.stats.Restarts++
	if err := s.start(); err != nil {
		return
	}
	savedSide := s.sideAt
	for lvl, as := range saved {
		if lvl > 0 {
			s.Push()
		}
		for _, a := range as {
			s.define(a)
			s.send("(assert " + a.ref() + ")")
			s.stack[s.level] = append(s.stack[s.level], a)
		}
		if lvl < len(savedSide) {
			s.sideAt[s.level] = savedSide[lvl]
		}
	}
}

// oneShot decides the current assertion stack with a fresh process of the
// fallback solver (non-incremental, full preprocessing).
func (s *Solver) oneShot() Result {
	var sb strings.Builder
	seen := map[int32]bool{}
	ufs := map[string]bool{}
	var atoms []*Term
	hasUF := false
	var emit func(t *Term)
	emit = func(t *Term) {
		if t.op == OpConst || seen[t.id] {
			return
		}
		seen[t.id] = true
		for _, a := range t.args {
			emit(a)
		}
		switch t.op {
		case OpVar:
			fmt.Fprintf(&sb, "(declare-const |%s| %s)\n", t.name, sortString(t.W))
			atoms = append(atoms, t)
		case OpUF:
			hasUF = true
			if !ufs[t.name] {
				ufs[t.name] = true
				fmt.Fprintf(&sb, "(declare-fun |%s| (", t.name)
				for i, a := range t.args {
					if i > 0 {
						sb.WriteByte(' ')
					}
					sb.WriteString(sortString(a.W))
				}
				fmt.Fprintf(&sb, ") %s)\n", sortString(t.W))
			}
			fmt.Fprintf(&sb, "(define-fun n%d () %s %s)\n", t.id, sortString(t.W), t.body())
			atoms = append(atoms, t)
		default:
			fmt.Fprintf(&sb, "(define-fun n%d () %s %s)\n", t.id, sortString(t.W), t.body())
		}
	}
	var asserts []string
	for _, lvl := range s.stack {
		for _, a := range lvl {
			emit(a)
			asserts = append(asserts, "(assert "+a.ref()+")")
		}
	}
	logic := "QF_BV"
	if hasUF {
		logic = "QF_UFBV"
	}
	script := "(set-option :produce-models true)\n(set-logic " + logic + ")\n" + sb.String() + strings.Join(asserts, "\n") + "\n(check-sat)\n"
	if len(atoms) > 0 {
		var gv strings.Builder
		gv.WriteString("(get-value (")
		for _, a := range atoms {
			gv.WriteByte(' ')
			gv.WriteString(a.ref())
		}
		gv.WriteString("))\n")
		script += gv.String()
	}
	var cmd *exec.Cmd
	switch s.fallback {
	case "cvc5":
		cmd = exec.Command("cvc5", "--lang=smt2", fmt.Sprintf("--tlimit=%d", s.fallbackMs))
	case "z3-new":
		cmd = exec.Command("z3-new", "-in", "-smt2", fmt.Sprintf("-T:%d", max(1, s.fallbackMs/1000)))
	default:
		cmd = exec.Command("/usr/bin/z3", "-in", "-smt2", fmt.Sprintf("-T:%d", max(1, s.fallbackMs/1000)))
	}
	cmd.Stdin = strings.NewReader(script)
	out, _ := cmd.Output()
	txt := string(out)
	first, rest, _ := strings.Cut(strings.TrimSpace(txt), "\n")
	switch strings.TrimSpace(first) {
	case "unsat":
		if strings.Contains(txt, "(error") && !strings.Contains(rest, "model is not available") && !strings.Contains(rest, "cannot get value") && !strings.Contains(rest, "Cannot get") {
			return Unknown
		}
		return Unsat
	case "sat":
		if strings.Contains(rest, "(error") {
			return Unknown
		}
		vals := parseValues(rest)
		if len(vals) != len(atoms) {
			return Unknown
		}
		s.fbVals = map[int32]uint64{}
		for i, a := range atoms {
			s.fbVals[a.id] = vals[i]
		}
		s.fbActive = true
		return Sat
	}
	return Unknown
}
