package main

// Path-local allocation.  Cells allocated while a path is being executed are
// garbage once the path ends, so stores into them need no undo entry.  Such
// cells come from arena chunks; membership is decided by address (Go's heap
// does not move objects).  Anything not provably inside a chunk is treated as
// old memory and logged as before, so the arena is purely an optimisation.

import (
	"go/types"
	"unsafe"
)

const (
	arenaFirstChunk = 512     // values (8 KiB)
	arenaMaxChunk   = 1 << 16 // values (1 MiB)
	arenaPageShift  = 13
)

type cellRange struct{ lo, hi uintptr }

type arena struct {
	free   []value
	next   int
	ranges []cellRange
	pages  map[uintptr]int32
}

func (a *arena) reset() {
	a.free = nil
	a.next = arenaFirstChunk
	a.ranges = a.ranges[:0]
	a.pages = nil
}

func (a *arena) register(s []value) {
	if len(s) == 0 {
		return
	}
	lo := uintptr(unsafe.Pointer(&s[0]))
	hi := lo + uintptr(len(s))*unsafe.Sizeof(s[0])
	idx := int32(len(a.ranges))
	a.ranges = append(a.ranges, cellRange{lo, hi})
	if a.pages == nil {
		a.pages = map[uintptr]int32{}
	}
	for pg := lo >> arenaPageShift; pg <= (hi-1)>>arenaPageShift; pg++ {
		if _, dup := a.pages[pg]; !dup {
			a.pages[pg] = idx
		}
	}
}

// alloc returns n zeroed (nil) values with capacity n.
func (a *arena) alloc(n int) []value {
	if n <= 0 {
		return nil
	}
	if n > len(a.free) {
		if n > arenaMaxChunk/4 {
			s := make([]value, n)
			a.register(s)
			return s
		}
		if a.next == 0 {
			a.next = arenaFirstChunk
		}
		for a.next < 4*n && a.next < arenaMaxChunk {
			a.next *= 2
		}
		chunk := make([]value, a.next)
		a.register(chunk)
		a.free = chunk
		if a.next < arenaMaxChunk {
			a.next *= 2
		}
	}
	s := a.free[:n:n]
	a.free = a.free[n:]
	return s
}

func (a *arena) fresh(p *value) bool {
	if a.pages == nil {
		return false
	}
	addr := uintptr(unsafe.Pointer(p))
	idx, ok := a.pages[addr>>arenaPageShift]
	if !ok {
		return false
	}
	r := a.ranges[idx]
	return addr >= r.lo && addr < r.hi
}

func (in *interp) newCell() *value {
	if in.logging {
		return &in.ar.alloc(1)[0]
	}
	return new(value)
}

func (in *interp) newVals(n int) []value {
	if n == 0 {
		return []value{} // non-nil: make([]T, 0) is not a nil slice
	}
	if in.logging {
		return in.ar.alloc(n)
	}
	return make([]value, n)
}

// zeroV is zero() with compound values allocated from the path arena.
func (in *interp) zeroV(t types.Type) value {
	if !in.logging {
		return zero(t)
	}
	switch t := t.(type) {
	case *types.Array:
		a := array(in.newVals(int(t.Len())))
		if t.Len() > 0 {
			switch t.Elem().Underlying().(type) {
			case *types.Array, *types.Struct:
				for i := range a {
					a[i] = in.zeroV(t.Elem())
				}
			default:
				z := zero(t.Elem())
				for i := range a {
					a[i] = z
				}
			}
		}
		return a
	case *types.Named:
		return in.zeroV(t.Underlying())
	case *types.Alias:
		return in.zeroV(types.Unalias(t))
	case *types.Struct:
		s := structure(in.newVals(t.NumFields()))
		for i := range s {
			s[i] = in.zeroV(t.Field(i).Type())
		}
		return s
	}
	return zero(t)
}
