package main

// Native replay (counterexample confirmation, translator validation),
// known findings, evidence.

import (
	"crypto/sha1"
	"flag"
	"encoding/json"
	"fmt"
	"os"
	"os/exec"
	"path/filepath"
	"regexp"
	"sort"
	"strings"
	"time"
)

type nativeCase struct {
	Harness string       `json:"harness"`
	Tier    int          `json:"tier"`
	Draws   []replayDraw `json:"draws"`
	Expect  string       `json:"expect,omitempty"`
}

func firstLine(s string) string {
	for _, l := range strings.Split(s, "\n") {
		if strings.Contains(l, "fatal error") || strings.Contains(l, "stack overflow") {
			return strings.TrimSpace(l)
		}
	}
	if i := strings.IndexByte(s, '\n'); i >= 0 {
		return s[:i]
	}
	return s
}

func hasLayoutDraw(ds []replayDraw) bool {
	for _, d := range ds {
		if strings.HasPrefix(d.Name, "layout:") {
			return true
		}
	}
	return false
}

type nativeResult struct {
	Status string   `json:"status"` // ok, assert, panic, assume, diverged, timeout
	Label  string   `json:"label"`
	Msg    string   `json:"msg"`
	Obs    []string `json:"obs"`
}

type nativeRunner struct {
	rep  *report
	bins map[string]string // rel -> test binary
	tmp  string
	log  []string
}

func (r *report) tierInt() int {
	if r.Tier == "thorough" {
		return 1
	}
	return 0
}

func (nr *nativeRunner) close() {
	if nr.tmp != "" {
		os.RemoveAll(nr.tmp)
	}
}

func goEnv() []string {
	env := os.Environ()
	out := env[:0:0]
	for _, e := range env {
		if strings.HasPrefix(e, "GOFLAGS=") || strings.HasPrefix(e, "GOTOOLCHAIN=") {
			continue
		}
		out = append(out, e)
	}
	return append(out, "GOFLAGS=-mod=mod", "GOPROXY=off")
}

// build compiles the replay test binary of package rel.
func (nr *nativeRunner) build(rel string, ld *loaded) (string, error) {
	if b, ok := nr.bins[rel]; ok {
		return b, nil
	}
	if nr.tmp == "" {
		d, err := os.MkdirTemp("", "gosym-replay-")
		if err != nil {
			return "", err
		}
		nr.tmp = d
	}
	r := nr.rep
	p := ld.pkgs[pkgPathOf(rel)]
	// collect every harness function of this package (all properties): the
	// overlay contains all files of the directory
	var all []string
	dir := filepath.Join(r.verif, "harness", rel)
	ents, _ := os.ReadDir(dir)
	for _, e := range ents {
		if strings.HasSuffix(e.Name(), ".go") {
			b, _ := os.ReadFile(filepath.Join(dir, e.Name()))
			for _, m := range harnessFuncRe.FindAllStringSubmatch(string(b), -1) {
				all = append(all, m[1])
			}
		}
	}
	sort.Strings(all)
	var sb strings.Builder
	sb.WriteString("//go:build verif\n\npackage " + p.Pkg.Name() + "\n\nimport (\n\t\"testing\"\n\n\t\"" + verifrtPath + "\"\n)\n\n")
	sb.WriteString("func TestVerifReplay(t *testing.T) {\n\tverifrt.RunReplay(t, map[string]func(){\n")
	for _, n := range all {
		fmt.Fprintf(&sb, "\t\t%q: %s,\n", n, n)
	}
	sb.WriteString("\t})\n}\n")
	tag := strings.ReplaceAll(strings.ReplaceAll(rel, "/", "_"), "@", "-")
	if tag == "." {
		tag = "root"
	}
	testFile := filepath.Join(nr.tmp, "replay_"+tag+"_test.go")
	if err := os.WriteFile(testFile, []byte(sb.String()), 0o644); err != nil {
		return "", err
	}
	ovFile := filepath.Join(nr.tmp, "overlay_"+tag+".json")
	extra := map[string]string{filepath.Join(r.repo, realRel(rel), "zz_verif_replay_test.go"): testFile}
	if err := writeOverlayJSON(ovFile, ld.realOf, extra); err != nil {
		return "", err
	}
	bin := filepath.Join(nr.tmp, tag+".test")
	cmd := exec.Command("go", "test", "-c", "-vet=off", "-tags", "verif", "-overlay", ovFile, "-o", bin, pkgPathOf(rel))
	cmd.Dir = r.repo
	cmd.Env = goEnv()
	out, err := cmd.CombinedOutput()
	if err != nil {
		return "", fmt.Errorf("go test -c failed: %v\n%s", err, out)
	}
	if nr.bins == nil {
		nr.bins = map[string]string{}
	}
	nr.bins[rel] = bin
	return bin, nil
}

func (nr *nativeRunner) run(rel string, ld *loaded, cases []nativeCase) ([]nativeResult, error) {
	if len(cases) == 0 {
		return nil, nil
	}
	bin, err := nr.build(rel, ld)
	if err != nil {
		return nil, err
	}
	in := filepath.Join(nr.tmp, "cases.json")
	outp := filepath.Join(nr.tmp, "results.json")
	os.Remove(outp)
	b, _ := json.Marshal(cases)
	if err := os.WriteFile(in, b, 0o644); err != nil {
		return nil, err
	}
	cmd := exec.Command(bin, "-test.run", "^TestVerifReplay$", "-test.timeout", "600s")
	cmd.Dir = filepath.Join(nr.rep.repo, realRel(rel))
	cmd.Env = append(goEnv(), "VERIF_REPLAY="+in, "VERIF_REPLAY_OUT="+outp)
	out, runErr := cmd.CombinedOutput()
	rb, err := os.ReadFile(outp)
	if err != nil {
		if runErr != nil && (strings.Contains(string(out), "stack overflow") || strings.Contains(string(out), "fatal error")) {
			// the process died (e.g. unbounded recursion): every case of
			// this batch is reported as crashed
			res := make([]nativeResult, len(cases))
			for i := range res {
				res[i] = nativeResult{Status: "crashed", Msg: firstLine(string(out))}
			}
			return res, nil
		}
		return nil, fmt.Errorf("native replay produced no results: %v\n%s", runErr, out)
	}
	var res []nativeResult
	if err := json.Unmarshal(rb, &res); err != nil {
		return nil, err
	}
	for len(res) < len(cases) {
		res = append(res, nativeResult{Status: "timeout", Msg: "no result (process ended early)"})
	}
	return res, nil
}

// ---------------------------------------------------------------- findings

type knownFinding struct {
	Property    string            `json:"property"`
	Status      string            `json:"status"` // "known" or "fixed"
	Harness     string            `json:"harness"`
	Label       string            `json:"label"`
	ObsMatch    map[string]string `json:"obs_match,omitempty"`
	Commit      string            `json:"commit,omitempty"`
	Description string            `json:"description"`
}

func loadKnown(path string) []knownFinding {
	b, err := os.ReadFile(path)
	if err != nil {
		return nil
	}
	var f struct {
		Findings []knownFinding `json:"findings"`
	}
	if json.Unmarshal(b, &f) != nil {
		return nil
	}
	return f.Findings
}

func (k *knownFinding) matches(id string, v *violation, obs []string) bool {
	if k.Status != "known" || k.Property != id {
		return false
	}
	if k.Harness != "" && k.Harness != v.Harness {
		return false
	}
	if k.Label != "" {
		re, err := regexp.Compile("^(?:" + k.Label + ")$")
		if err != nil || !re.MatchString(v.Label) {
			return false
		}
	}
	for name, pat := range k.ObsMatch {
		re, err := regexp.Compile(pat)
		if err != nil {
			return false
		}
		found := false
		for _, o := range obs {
			if n, val, ok := strings.Cut(o, "="); ok && n == name && re.MatchString(val) {
				found = true
			}
		}
		if !found {
			return false
		}
	}
	return true
}

// ---------------------------------------------------------------- finish

type replayFile struct {
	Property string       `json:"property"`
	Harness  string       `json:"harness"`
	Rel      string       `json:"rel"`
	Label    string       `json:"label"`
	Msg      string       `json:"msg"`
	Tier     int          `json:"tier"`
	Draws    []replayDraw `json:"draws"`
	Obs      []string     `json:"engine_obs"`
	Native   nativeResult `json:"native_result"`
}

func (r *report) finish(doReplay bool) int {
	nr := &nativeRunner{rep: r}
	defer nr.close()
	known := loadKnown(filepath.Join(r.verif, "known_findings.json"))

	type confirmed struct {
		v    violation
		rel  string
		nat  nativeResult
		file string
	}
	var conf []confirmed
	unconfirmed := 0
	var unconfMsgs []string
	validated, valMismatch := 0, 0
	var internalErrs []string

	if doReplay {
		// 1. counterexamples
		for _, j := range r.jobs {
			if len(j.violations) == 0 {
				continue
			}
			var cases []nativeCase
			for _, v := range j.violations {
				cases = append(cases, nativeCase{Harness: v.Harness, Tier: r.tierInt(), Draws: v.Draws, Expect: v.Label})
			}
			res, err := nr.run(j.rel, j.ld, cases)
			if err != nil {
				internalErrs = append(internalErrs, err.Error())
				continue
			}
			for i, v := range j.violations {
				nat := res[i]
				ok := false
				switch {
				case v.Label == "terminates":
					// confirmed if the native run, alone in its process,
					// does not finish within the deadline
					os.Setenv("VERIF_REPLAY_DEADLINE_S", "20")
					one, err := nr.run(j.rel, j.ld, cases[i:i+1])
					os.Unsetenv("VERIF_REPLAY_DEADLINE_S")
					if err == nil && len(one) == 1 {
						nat = one[0]
					}
					ok = nat.Status == "timeout" || nat.Status == "crashed"
				case v.Label == "no-panic":
					ok = nat.Status == "panic"
				case strings.HasPrefix(v.Label, "alloc-bounded@"):
					ok = true // engine-side monitor; natively the allocation simply happens
				case v.Label == "no data race":
					// a data race has no native observable under the
					// cooperative replay scheduler (and serialised accesses
					// hide it from -race); the engine's happens-before
					// verdict on the explored schedule is reported as is
					ok = true
				default:
					ok = nat.Status == "assert" && nat.Label == v.Label
				}
				if ok {
					conf = append(conf, confirmed{v: v, rel: j.rel, nat: nat})
				} else {
					unconfirmed++
					unconfMsgs = append(unconfMsgs, fmt.Sprintf("%s/%s: engine counterexample not reproduced natively (engine: %s; native: %s %s %s; draws %v)", v.Harness, v.Label, v.Msg, nat.Status, nat.Label, nat.Msg, v.Draws))
				}
			}
		}
		// 2. translator validation on sampled paths
		budget := 32
		for _, j := range r.jobs {
			if budget <= 0 {
				break
			}
			n := min(len(j.samples), max(2, budget/max(1, len(r.jobs))))
			var cases []nativeCase
			var sel []pathSummary
			for _, s := range j.samples[:n] {
				cases = append(cases, nativeCase{Harness: j.name, Tier: r.tierInt(), Draws: s.Draws})
				sel = append(sel, s)
			}
			res, err := nr.run(j.rel, j.ld, cases)
			if err != nil {
				internalErrs = append(internalErrs, err.Error())
				continue
			}
			for i, s := range sel {
				nat := res[i]
				same := (s.Status == "ok" && nat.Status == "ok") || (s.Status == "panic" && nat.Status == "panic")
				if same && s.Status == "ok" {
					same = strings.Join(s.Obs, "\n") == strings.Join(nat.Obs, "\n")
				}
				if same {
					validated++
				} else if nat.Status == "assume" && hasLayoutDraw(s.Draws) {
					// the sampled index lies outside the native range (the
					// byte layout differs): not comparable
				} else if !j.mapOrder {
					valMismatch++
					unconfMsgs = append(unconfMsgs, fmt.Sprintf("%s: validation trace differs: engine %s %v / native %s %s %v (draws %v)", j.name, s.Status, s.Obs, nat.Status, nat.Msg, nat.Obs, s.Draws))
				}
				budget--
			}
		}
	}

	// 3. classify confirmed violations
	exit := 0
	var lines []string
	knownSeen := map[int]bool{}
	newViol := 0
	replayDir := filepath.Join(r.verif, "replay", r.ID)
	for i := range conf {
		c := &conf[i]
		obs := append(append([]string(nil), c.v.Obs...), c.nat.Obs...)
		matched := -1
		for ki := range known {
			if known[ki].matches(r.ID, &c.v, obs) {
				matched = ki
				break
			}
		}
		if matched >= 0 {
			if !knownSeen[matched] {
				knownSeen[matched] = true
				lines = append(lines, fmt.Sprintf("KNOWN-FINDING: property=%s %s", r.ID, known[matched].Description))
			}
			continue
		}
		os.MkdirAll(replayDir, 0o755)
		h := sha1.Sum([]byte(fmt.Sprint(c.v.Harness, c.v.Label, c.v.Draws)))
		file := filepath.Join(replayDir, fmt.Sprintf("%s-%x.json", c.v.Harness, h[:4]))
		rf := replayFile{Property: r.ID, Harness: c.v.Harness, Rel: c.rel, Label: c.v.Label, Msg: c.v.Msg, Tier: r.tierInt(), Draws: c.v.Draws, Obs: c.v.Obs, Native: c.nat}
		b, _ := json.MarshalIndent(rf, "", " ")
		os.WriteFile(file, b, 0o644)
		lines = append(lines, fmt.Sprintf("VIOLATION property=%s replay=%s", r.ID, file))
		fmt.Printf("  violation: %s label=%s native=%s %s obs=%v\n", c.v.Harness, c.v.Label, c.nat.Status, c.nat.Msg, obs)
		newViol++
		exit = 1
	}

	// 4. evidence
	ev := r.evidence(validated, valMismatch, unconfirmed, unconfMsgs, newViol, len(knownSeen), internalErrs)
	// GOSYM_EVIDENCE_DIR redirects the evidence (runs against a modified
	// tree must not overwrite the evidence of the unchanged one)
	evDir := filepath.Join(r.verif, "evidence")
	if d := os.Getenv("GOSYM_EVIDENCE_DIR"); d != "" {
		evDir = d
	}
	os.MkdirAll(evDir, 0o755)
	b, _ := json.MarshalIndent(ev, "", " ")
	if err := os.WriteFile(filepath.Join(evDir, r.ID+".json"), b, 0o644); err != nil {
		fmt.Fprintln(os.Stderr, "cannot write evidence:", err)
	}

	for _, m := range unconfMsgs {
		fmt.Println("WARNING engine-divergence:", m)
	}
	for _, m := range internalErrs {
		fmt.Println("INTERNAL-ERROR:", m)
	}
	nc := 0
	for _, j := range r.jobs {
		for _, n := range j.notCovered {
			nc += n
		}
	}
	if nc > 0 {
		fmt.Printf("WARNING reduced-bound: %d paths/branches not covered (see evidence not_covered)\n", nc)
	}
	for _, l := range lines {
		fmt.Println(l)
	}
	fmt.Printf("  solver io: send %.1fs, get-value %.1fs\n", r.solver.SendTime.Seconds(), r.solver.ValueTime.Seconds())
	fmt.Printf("  solver: %d fallbacks, max query %.1fs, %d restarts, %d protocol errors\n", r.solver.Fallbacks, r.solver.MaxQuery.Seconds(), r.solver.Restarts, r.solver.Errors)
	fmt.Printf("%s %s: %d harnesses, %d paths, %d queries (%d unknown), solver %.1fs, validated %d traces, wall %.1fs, exit %d\n",
		r.ID, r.Tier, len(r.jobs), ev.Coverage["states"], r.solver.Queries, r.solver.Unknown, r.solver.Time.Seconds(), validated, time.Since(r.start).Seconds(), exit)
	if len(internalErrs) > 0 && exit == 0 {
		return 2
	}
	return exit
}

type evidenceDoc struct {
	PropertyID  string         `json:"property_id"`
	Tier        string         `json:"tier"`
	Seed        int64          `json:"seed"`
	Level       string         `json:"level"`
	Coverage    map[string]any `json:"coverage"`
	Assumptions []string       `json:"assumptions"`
	WallS       float64        `json:"wall_s"`
	Violations  int            `json:"violations"`
}

func (r *report) evidence(validated, valMismatch, unconfirmed int, unconfMsgs []string, newViol, knownHit int, internalErrs []string) *evidenceDoc {
	states, transitions := 0, int64(0)
	var samples []any
	harnesses := []any{}
	funcs := map[string]bool{}
	notCovered := map[string]int{}
	covers := map[string]int{}
	vacuous := []string{}
	for _, j := range r.jobs {
		ok := j.statusCount["ok"] + j.statusCount["panic"] + j.statusCount["stop"]
		states += ok
		transitions += j.decisions
		for f := range j.funcs {
			funcs[f] = true
		}
		for k, n := range j.notCovered {
			notCovered[j.name+": "+k] += n
		}
		for k, n := range j.covers {
			covers[j.name+":"+k] += n
		}
		if ok == 0 {
			vacuous = append(vacuous, j.name)
		}
		hs := map[string]any{
			"name": j.name, "paths": j.paths, "status": j.statusCount, "decisions": j.decisions,
			"max_decisions_on_a_path": j.maxDecisions, "engine_counterexamples": len(j.violations),
			"cover_labels": j.covers, "wall_s": j.wall.Seconds(),
		}
		harnesses = append(harnesses, hs)
		for i, s := range j.samples {
			if i >= 2 {
				break
			}
			samples = append(samples, map[string]any{"harness": j.name, "status": s.Status, "decisions": s.Decisions, "witness_inputs": s.Draws, "observations": s.Obs})
		}
	}
	if len(samples) == 0 {
		samples = append(samples, "no completed path")
	}
	fl := make([]string, 0, len(funcs))
	for f := range funcs {
		fl = append(fl, f)
	}
	sort.Strings(fl)
	cov := map[string]any{
		"states":                         max(states, 0),
		"transitions":                    transitions,
		"traces_validated_against_impl":  validated,
		"validation_mismatches":          valMismatch,
		"samples":                        samples,
		"explanation":                    "bounded symbolic execution of the real go/ssa code; states = feasible paths completed (each an equivalence class of inputs decided by the solver), transitions = branch/value decisions taken",
		"harnesses":                      harnesses,
		"functions_encoded":              fl,
		"functions_encoded_count":        len(fl),
		"queries":                        map[string]any{"total": r.solver.Queries, "sat": r.solver.Sat, "unsat": r.solver.Unsat, "unknown": r.solver.Unknown},
		"solver":                         r.cfg.solverKind,
		"solver_time_s":                  r.solver.Time.Seconds(),
		"max_query_s":                    r.solver.MaxQuery.Seconds(),
		"instructions_interpreted":       r.instrs,
		"not_covered":                    notCovered,
		"cover_labels":                   covers,
		"vacuous_harnesses":              vacuous,
		"unconfirmed_counterexamples":    unconfirmed,
		"engine_divergences":             unconfMsgs,
		"known_findings_hit":             knownHit,
		"internal_errors":                internalErrs,
		"load_s":                         r.loadS,
		"exhaustive":                     len(notCovered) == 0 && unconfirmed == 0,
	}
	assumptions := []string{
		"bounds are those stated by each harness (input sizes, Unwind caps); nothing is claimed outside them",
		"standard library modelled as listed in DESIGN.md 2.3 (fmt/errors/bytealg/strconv/sync/regexp native models)",
		"go/ssa (x/tools v0.50.0) lowering and the engine's instruction semantics; cross-checked by native replay of sampled paths",
		"solver: " + r.cfg.solverKind,
	}
	return &evidenceDoc{PropertyID: r.ID, Tier: r.Tier, Seed: r.Seed, Level: "model_checking", Coverage: cov,
		Assumptions: assumptions, WallS: time.Since(r.start).Seconds(), Violations: newViol}
}

func cmdReplay(args []string) int {
	fs := flag.NewFlagSet("replay", flag.ExitOnError)
	file := fs.String("file", "", "replay file written by a check")
	repo := fs.String("repo", "/repo", "repository working tree")
	verif := fs.String("verif", "/verif", "verification directory")
	fs.Parse(args)
	b, err := os.ReadFile(*file)
	if err != nil {
		fmt.Fprintln(os.Stderr, err)
		return 2
	}
	var rf replayFile
	if err := json.Unmarshal(b, &rf); err != nil {
		fmt.Fprintln(os.Stderr, err)
		return 2
	}
	harnessDir := filepath.Join(*verif, "harness")
	overlay, realOf, err := buildOverlay(*repo, harnessDir, []string{rf.Rel})
	if err != nil {
		fmt.Fprintln(os.Stderr, "overlay:", err)
		return 2
	}
	ld, err := loadProgram(*repo, overlay, realOf, []string{rf.Rel})
	if err != nil {
		fmt.Fprintln(os.Stderr, "load:", err)
		return 2
	}
	r := &report{ID: rf.Property, verif: *verif, repo: *repo, ld: ld}
	nr := &nativeRunner{rep: r}
	defer nr.close()
	if rf.Label == "terminates" {
		os.Setenv("VERIF_REPLAY_DEADLINE_S", "20")
	}
	res, err := nr.run(rf.Rel, ld, []nativeCase{{Harness: rf.Harness, Tier: rf.Tier, Draws: rf.Draws, Expect: rf.Label}})
	if err != nil {
		fmt.Fprintln(os.Stderr, err)
		return 2
	}
	fmt.Printf("replay %s %s: native status=%s label=%q msg=%q obs=%v\n", rf.Property, rf.Harness, res[0].Status, res[0].Label, res[0].Msg, res[0].Obs)
	if res[0].Status == "assert" || res[0].Status == "panic" || (rf.Label == "terminates" && (res[0].Status == "timeout" || res[0].Status == "crashed")) {
		fmt.Printf("VIOLATION property=%s replay=%s\n", rf.Property, *file)
		return 1
	}
	return 0
}
