package main

// Native, symbolic-aware models of fmt and errors.

import (
	"fmt"
	"go/types"
	"strconv"
	"strings"

	"golang.org/x/tools/go/ssa"
)

func (in *interp) findMethod(t types.Type, name string) *ssa.Function {
	k := methodKey{t, name, nil}
	if f, ok := in.methodCache[k]; ok {
		return f
	}
	var f *ssa.Function
	if t != rtypeType {
		ms := in.prog.MethodSets.MethodSet(t)
		for i := 0; i < ms.Len(); i++ {
			sel := ms.At(i)
			if sel.Obj().Name() == name && sel.Obj().Exported() {
				f = in.prog.MethodValue(sel)
				break
			}
		}
	}
	in.methodCache[k] = f
	return f
}

// hasSig reports whether f has no params (besides receiver) and returns
// exactly the given basic/named result.
func sigResultIsString(f *ssa.Function) bool {
	sig := f.Signature
	if sig.Params().Len() != 0 || sig.Results().Len() != 1 {
		return false
	}
	b, ok := sig.Results().At(0).Type().Underlying().(*types.Basic)
	return ok && b.Kind() == types.String
}

// fmtOperand renders one operand for verb v.  It returns bytes.
func (in *interp) fmtOperand(fr *frame, spec string, verb byte, arg value, depth int) []value {
	// unwrap interface
	var t types.Type
	if i, ok := arg.(iface); ok {
		if i.t == nil {
			if verb == 'T' {
				return strBytes("<nil>")
			}
			return strBytes(hostFmt(spec, verb, nil, "<nil>"))
		}
		t, arg = i.t, i.v
	}
	if verb == 'T' {
		return strBytes(t.String())
	}
	if verb == 'p' {
		return strBytes("0xc000000000")
	}
	// error / Stringer
	if t != nil && depth < 4 && (verb == 'v' || verb == 's' || verb == 'q' || verb == 'w') {
		if arg2, ok := arg.(*value); ok && arg2 == nil {
			// nil pointer receiver: fmt prints <nil>
			return strBytes("<nil>")
		}
		for _, mname := range []string{"Error", "String"} {
			if f := in.findMethod(t, mname); f != nil && sigResultIsString(f) {
				s := in.call(fr, 0, f, []value{arg})
				if verb == 'w' {
					verb, spec = 'v', "%v"
				}
				return in.fmtString(spec, verb, s)
			}
		}
	}
	if verb == 'w' {
		verb, spec = 'v', "%v"
	}
	switch x := arg.(type) {
	case string, *SymStr:
		return in.fmtString(spec, verb, x)
	case bool:
		return strBytes(hostFmt(spec, verb, x, ""))
	case float64:
		return strBytes(hostFmt(spec, verb, x, ""))
	case float32:
		return strBytes(hostFmt(spec, verb, x, ""))
	case complex128:
		return strBytes(hostFmt(spec, verb, x, ""))
	case Sym:
		if x.K == types.Bool {
			if in.truth(x) {
				return strBytes("true")
			}
			return strBytes("false")
		}
		switch verb {
		case 'd', 'v':
			d := in.decimalModel(x)
			return padTo(spec, d)
		case 'c':
			if x.T.umax < 0x80 {
				return []value{Sym{in.tt.Extract(x.T, 7, 0), types.Uint8}}
			}
		case 'x', 'X':
			return in.hexModel(spec, verb, x)
		}
		u := in.concretize(x.T, "fmt operand")
		return strBytes(hostFmt(spec, verb, boxInt(x.K, uint64(sext64OrZero(u, x))), ""))
	case []value:
		// []byte with %s %x %q %v
		if t != nil {
			if sl, ok := t.Underlying().(*types.Slice); ok {
				if b, ok := sl.Elem().Underlying().(*types.Basic); ok && b.Kind() == types.Uint8 {
					switch verb {
					case 's', 'q':
						return in.fmtString(spec, verb, mkString(x))
					case 'x', 'X':
						if hb, ok := hostBytes(x); ok {
							return strBytes(hostFmt(spec, verb, hb, ""))
						}
						var out []value
						for _, e := range x {
							out = append(out, in.hexByte(e, verb == 'X')...)
						}
						return out
					}
				}
			}
		}
		out := strBytes("[")
		for i, e := range x {
			if i > 0 {
				out = append(out, uint8(' '))
			}
			var et types.Type
			if t != nil {
				if sl, ok := t.Underlying().(*types.Slice); ok {
					et = sl.Elem()
				}
			}
			out = append(out, in.fmtOperand(fr, "%v", 'v', rewrap(et, e), depth+1)...)
		}
		return append(out, uint8(']'))
	case array:
		out := strBytes("[")
		for i, e := range x {
			if i > 0 {
				out = append(out, uint8(' '))
			}
			var et types.Type
			if t != nil {
				if a, ok := t.Underlying().(*types.Array); ok {
					et = a.Elem()
				}
			}
			out = append(out, in.fmtOperand(fr, "%v", 'v', rewrap(et, e), depth+1)...)
		}
		return append(out, uint8(']'))
	case structure:
		out := strBytes("{")
		var st *types.Struct
		if t != nil {
			st, _ = t.Underlying().(*types.Struct)
		}
		for i, e := range x {
			if i > 0 {
				out = append(out, uint8(' '))
			}
			var ft types.Type
			if st != nil {
				ft = st.Field(i).Type()
				if strings.Contains(spec, "+") {
					out = append(out, strBytes(st.Field(i).Name()+":")...)
				}
			}
			out = append(out, in.fmtOperand(fr, "%v", 'v', rewrap(ft, e), depth+1)...)
		}
		return append(out, uint8('}'))
	case *value:
		if x == nil {
			return strBytes("<nil>")
		}
		if depth == 0 && t != nil {
			if pt, ok := t.Underlying().(*types.Pointer); ok {
				if _, ok := pt.Elem().Underlying().(*types.Struct); ok {
					return append(strBytes("&"), in.fmtOperand(fr, "%v", 'v', rewrap(pt.Elem(), *x), depth+1)...)
				}
			}
		}
		return strBytes("0xc000000000")
	case *Map:
		out := strBytes("map[")
		if x != nil {
			first := true
			for i := range x.keys {
				if x.dead[i] {
					continue
				}
				if !first {
					out = append(out, uint8(' '))
				}
				first = false
				var kt, vt types.Type
				if t != nil {
					if mt, ok := t.Underlying().(*types.Map); ok {
						kt, vt = mt.Key(), mt.Elem()
					}
				}
				out = append(out, in.fmtOperand(fr, "%v", 'v', rewrap(kt, x.keys[i]), depth+1)...)
				out = append(out, uint8(':'))
				out = append(out, in.fmtOperand(fr, "%v", 'v', rewrap(vt, x.vals[i]), depth+1)...)
			}
		}
		return append(out, uint8(']'))
	case rtype:
		return strBytes(x.t.String())
	case nil:
		return strBytes("<nil>")
	}
	if _, _, ok := unboxInt(arg); ok {
		return strBytes(hostFmt(spec, verb, arg, ""))
	}
	return strBytes(fmt.Sprintf("<%T>", arg))
}

func sext64OrZero(u uint64, x Sym) int64 {
	if kindSigned(x.K) {
		return sext64(u, x.T.W)
	}
	return int64(u)
}

// rewrap wraps an element in an interface carrying its static type so that
// methods can be found; interface-typed elements are already ifaces.
func rewrap(t types.Type, v value) value {
	if _, ok := v.(iface); ok {
		return v
	}
	if t == nil {
		return v
	}
	if _, isIface := t.Underlying().(*types.Interface); isIface {
		return v
	}
	return iface{t: t, v: v}
}

func hostFmt(spec string, verb byte, arg any, fallback string) string {
	if arg == nil {
		return fallback
	}
	return fmt.Sprintf(spec, arg)
}

func padTo(spec string, d []value) []value {
	// spec like %d, %5d, %05d, %-5d
	body := spec[1 : len(spec)-1]
	left := strings.Contains(body, "-")
	zero := strings.HasPrefix(strings.TrimLeft(body, "+- #"), "0") && !left
	body = strings.TrimLeft(body, "+-# 0")
	if i := strings.IndexByte(body, '.'); i >= 0 {
		body = body[:i]
	}
	w, _ := strconv.Atoi(body)
	if len(d) >= w {
		return d
	}
	pad := make([]value, w-len(d))
	for i := range pad {
		if zero {
			pad[i] = uint8('0')
		} else {
			pad[i] = uint8(' ')
		}
	}
	if left {
		return append(d, pad...)
	}
	if zero && len(d) > 0 {
		if c, ok := d[0].(uint8); ok && c == '-' {
			return append(append([]value{uint8('-')}, pad...), d[1:]...)
		}
	}
	return append(pad, d...)
}

func (in *interp) hexByte(e value, upper bool) []value {
	tt := in.tt
	t, _ := in.lift(e)
	nib := func(n *Term) value {
		// n is 8 bits, value 0..15
		base := uint64('a' - 10)
		if upper {
			base = 'A' - 10
		}
		lt := tt.Cmp(OpUlt, n, tt.Const(8, 10))
		return in.symInt(tt.Ite(lt, tt.Bin(OpAdd, n, tt.Const(8, '0')), tt.Bin(OpAdd, n, tt.Const(8, base))), types.Uint8)
	}
	hi := tt.Bin(OpLShr, t, tt.Const(8, 4))
	lo := tt.Bin(OpAnd, t, tt.Const(8, 15))
	return []value{nib(hi), nib(lo)}
}

func (in *interp) hexModel(spec string, verb byte, x Sym) []value {
	// only fixed-width full forms are modelled symbolically: %02x on bytes
	if x.T.W == 8 && (spec == "%02x" || spec == "%02X") {
		return in.hexByte(x, verb == 'X')
	}
	u := in.concretize(x.T, "fmt %x operand")
	return strBytes(fmt.Sprintf(spec, boxInt(x.K, u)))
}

func (in *interp) fmtString(spec string, verb byte, s value) []value {
	if hs, ok := s.(string); ok {
		switch verb {
		case 's', 'v', 'q', 'x', 'X':
			return strBytes(fmt.Sprintf(spec, hs))
		}
		return strBytes("%!" + string(verb) + "(string=" + hs + ")")
	}
	b := strBytes(s)
	switch verb {
	case 's', 'v':
		return b
	case 'q':
		// quoting of symbolic bytes is not modelled exactly (messages only)
		return append(append([]value{uint8('"')}, b...), uint8('"'))
	case 'x', 'X':
		var out []value
		for _, e := range b {
			out = append(out, in.hexByte(e, verb == 'X')...)
		}
		return out
	}
	return b
}

// sprintf formats like fmt.Sprintf and also returns the %w operands.
func (in *interp) sprintf(fr *frame, format string, args []value) ([]value, []value) {
	var out []value
	var wrapped []value
	argi := 0
	for i := 0; i < len(format); {
		c := format[i]
		if c != '%' {
			out = append(out, c)
			i++
			continue
		}
		j := i + 1
		for j < len(format) && strings.IndexByte("+-# 0123456789.*", format[j]) >= 0 {
			j++
		}
		if j >= len(format) {
			out = append(out, strBytes("%!(NOVERB)")...)
			break
		}
		verb := format[j]
		spec := format[i : j+1]
		i = j + 1
		if verb == '%' {
			out = append(out, uint8('%'))
			continue
		}
		if strings.Contains(spec, "*") {
			// width from argument
			if argi < len(args) {
				w := asInt64(args[argi].(iface).v)
				argi++
				spec = strings.Replace(spec, "*", strconv.FormatInt(w, 10), 1)
			}
		}
		if argi >= len(args) {
			out = append(out, strBytes("%!"+string(verb)+"(MISSING)")...)
			continue
		}
		arg := args[argi]
		argi++
		if verb == 'w' {
			wrapped = append(wrapped, arg)
		}
		out = append(out, in.fmtOperand(fr, spec, verb, arg, 0)...)
	}
	if argi < len(args) {
		out = append(out, strBytes("%!(EXTRA)")...)
	}
	return out, wrapped
}

func (in *interp) sprint(fr *frame, args []value, ln bool) []value {
	var out []value
	prevString := false
	for i, a := range args {
		isStr := false
		if it, ok := a.(iface); ok && it.t != nil {
			if b, ok := it.t.Underlying().(*types.Basic); ok && b.Info()&types.IsString != 0 {
				isStr = true
			}
		}
		if i > 0 && (ln || (!isStr && !prevString)) {
			out = append(out, uint8(' '))
		}
		out = append(out, in.fmtOperand(fr, "%v", 'v', a, 0)...)
		prevString = isStr
	}
	if ln {
		out = append(out, uint8('\n'))
	}
	return out
}

// callWrite calls w.Write(b) on an interpreted io.Writer.
func (in *interp) callWrite(fr *frame, w value, b []value) value {
	it := w.(iface)
	if it.t == nil {
		panic(runtimePanic{"invalid memory address or nil pointer dereference (nil io.Writer)"})
	}
	f := in.findMethod(it.t, "Write")
	if f == nil {
		panic(in.unsupported("io.Writer without Write method: " + it.t.String()))
	}
	return in.call(fr, 0, f, []value{it.v, b})
}

func (in *interp) mkWrapError(msg value, err value) value {
	var cell value = structure{msg, err}
	return iface{t: in.wrapErrorType, v: &cell}
}

func init() {
	externals["fmt.Sprintf"] = func(fr *frame, args []value) (value, bool) {
		f, _ := args[0].(string)
		out, _ := fr.in.sprintf(fr, f, args[1].([]value))
		return done(mkString(out))
	}
	externals["fmt.Errorf"] = func(fr *frame, args []value) (value, bool) {
		in := fr.in
		f, _ := args[0].(string)
		out, wrapped := in.sprintf(fr, f, args[1].([]value))
		msg := mkString(out)
		switch len(wrapped) {
		case 0:
			return done(in.newError(msg))
		case 1:
			w := wrapped[0]
			if it, ok := w.(iface); ok && it.t != nil && in.findMethod(it.t, "Error") != nil {
				return done(in.mkWrapError(msg, w))
			}
			return done(in.newError(msg))
		default:
			var cell value = structure{msg, []value(wrapped)}
			return done(iface{t: in.wrapErrorsType, v: &cell})
		}
	}
	externals["(*fmt.wrapError).Error"] = func(fr *frame, args []value) (value, bool) {
		return done((*cellOf(args[0])).(structure)[0])
	}
	externals["(*fmt.wrapError).Unwrap"] = func(fr *frame, args []value) (value, bool) {
		return done((*cellOf(args[0])).(structure)[1])
	}
	externals["(*fmt.wrapErrors).Error"] = externals["(*fmt.wrapError).Error"]
	externals["(*fmt.wrapErrors).Unwrap"] = externals["(*fmt.wrapError).Unwrap"]
	externals["fmt.Fprintf"] = func(fr *frame, args []value) (value, bool) {
		f, _ := args[1].(string)
		out, _ := fr.in.sprintf(fr, f, args[2].([]value))
		return done(fr.in.callWrite(fr, args[0], out))
	}
	externals["fmt.Appendf"] = func(fr *frame, args []value) (value, bool) {
		f, _ := args[1].(string)
		out, _ := fr.in.sprintf(fr, f, args[2].([]value))
		return done(fr.in.appendVals(args[0].([]value), out))
	}
	externals["fmt.Sprint"] = func(fr *frame, args []value) (value, bool) {
		return done(mkString(fr.in.sprint(fr, args[0].([]value), false)))
	}
	externals["fmt.Sprintln"] = func(fr *frame, args []value) (value, bool) {
		return done(mkString(fr.in.sprint(fr, args[0].([]value), true)))
	}
	externals["fmt.Fprint"] = func(fr *frame, args []value) (value, bool) {
		return done(fr.in.callWrite(fr, args[0], fr.in.sprint(fr, args[1].([]value), false)))
	}
	externals["fmt.Fprintln"] = func(fr *frame, args []value) (value, bool) {
		return done(fr.in.callWrite(fr, args[0], fr.in.sprint(fr, args[1].([]value), true)))
	}
	discard := func(fr *frame, args []value) (value, bool) { return done(tuple{0, iface{}}) }
	externals["fmt.Printf"] = discard
	externals["fmt.Println"] = discard
	externals["fmt.Print"] = discard

	// ---------------- errors
	externals["errors.Is"] = func(fr *frame, args []value) (value, bool) {
		return done(fr.in.errorsIs(fr, args[0].(iface), args[1].(iface), 0))
	}
	externals["errors.As"] = func(fr *frame, args []value) (value, bool) {
		in := fr.in
		target := args[1].(iface)
		if target.t == nil {
			panic(targetPanic{iface{types.Typ[types.String], "errors: target cannot be nil"}})
		}
		pt, ok := target.t.Underlying().(*types.Pointer)
		if !ok {
			panic(targetPanic{iface{types.Typ[types.String], "errors: target must be a non-nil pointer"}})
		}
		return done(in.errorsAs(fr, args[0].(iface), pt.Elem(), target.v.(*value), 0))
	}
}

func (in *interp) errorsIs(fr *frame, err, target iface, depth int) bool {
	if depth > 64 {
		return false
	}
	if err.t == nil || target.t == nil {
		return err.t == nil && target.t == nil
	}
	comparable := types.Comparable(target.t)
	for {
		if comparable && in.identical(err.t, target.t) && types.Comparable(err.t) {
			if in.truth(in.equals(err.t, err.v, target.v)) {
				return true
			}
		}
		if f := in.findMethod(err.t, "Is"); f != nil && f.Signature.Params().Len() == 1 {
			if in.truth(in.call(fr, 0, f, []value{err.v, target})) {
				return true
			}
		}
		f := in.findMethod(err.t, "Unwrap")
		if f == nil {
			return false
		}
		r := in.call(fr, 0, f, []value{err.v})
		switch r := r.(type) {
		case iface:
			if r.t == nil {
				return false
			}
			err = r
		case []value:
			for _, e := range r {
				if e.(iface).t == nil {
					continue
				}
				if in.errorsIs(fr, e.(iface), target, depth+1) {
					return true
				}
			}
			return false
		default:
			return false
		}
	}
}

func (in *interp) errorsAs(fr *frame, err iface, T types.Type, dst *value, depth int) bool {
	if depth > 64 || err.t == nil {
		return false
	}
	for {
		if it, ok := T.Underlying().(*types.Interface); ok {
			if in.implements(err.t, it) {
				in.storeCell(dst, err)
				return true
			}
		} else if in.identical(err.t, T) {
			in.storeCell(dst, err.v)
			return true
		}
		if f := in.findMethod(err.t, "As"); f != nil && f.Signature.Params().Len() == 1 {
			if in.truth(in.call(fr, 0, f, []value{err.v, iface{t: types.NewPointer(T), v: dst}})) {
				return true
			}
		}
		f := in.findMethod(err.t, "Unwrap")
		if f == nil {
			return false
		}
		r := in.call(fr, 0, f, []value{err.v})
		switch r := r.(type) {
		case iface:
			if r.t == nil {
				return false
			}
			err = r
		case []value:
			for _, e := range r {
				if e.(iface).t == nil {
					continue
				}
				if in.errorsAs(fr, e.(iface), T, dst, depth+1) {
					return true
				}
			}
			return false
		default:
			return false
		}
	}
}
