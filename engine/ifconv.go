package main

// If-conversion: a symbolic branch whose two arms rejoin at the immediate
// post-dominator through a small acyclic region of side-effect-free
// instructions is not forked.  All paths through the region are executed
// speculatively with their guards, and the φ-nodes at the join become ite
// terms.  Anything unexpected during speculation (a panic, a needed decision,
// a non-scalar φ with different inputs) abandons the attempt and the branch
// is forked as usual.

import (
	"go/token"
	"go/types"

	"golang.org/x/tools/go/ssa"
)

type diamond struct {
	join   *ssa.BasicBlock
	blocks map[*ssa.BasicBlock]bool
	ok     bool
}

type specAbort struct{}

const maxRegionBlocks = 12
const maxRegionPaths = 24

// postDoms computes immediate post-dominators of fn's blocks.
func postDoms(fn *ssa.Function) map[*ssa.BasicBlock]*ssa.BasicBlock {
	n := len(fn.Blocks)
	// pdom sets as bitsets over block indices, plus virtual exit n
	words := (n + 1 + 63) / 64
	full := make([]uint64, words)
	for i := 0; i <= n; i++ {
		full[i/64] |= 1 << (i % 64)
	}
	pd := make([][]uint64, n+1)
	for i := 0; i <= n; i++ {
		pd[i] = append([]uint64(nil), full...)
	}
	exit := make([]uint64, words)
	exit[n/64] |= 1 << (n % 64)
	pd[n] = exit
	changed := true
	for changed {
		changed = false
		for i := n - 1; i >= 0; i-- {
			b := fn.Blocks[i]
			nw := append([]uint64(nil), full...)
			if len(b.Succs) == 0 {
				copy(nw, pd[n])
			} else {
				for _, s := range b.Succs {
					for w := range nw {
						nw[w] &= pd[s.Index][w]
					}
				}
			}
			nw[i/64] |= 1 << (i % 64)
			same := true
			for w := range nw {
				if nw[w] != pd[i][w] {
					same = false
				}
			}
			if !same {
				pd[i] = nw
				changed = true
			}
		}
	}
	has := func(set []uint64, i int) bool { return set[i/64]&(1<<(i%64)) != 0 }
	count := func(set []uint64) int {
		c := 0
		for i := 0; i <= n; i++ {
			if has(set, i) {
				c++
			}
		}
		return c
	}
	res := map[*ssa.BasicBlock]*ssa.BasicBlock{}
	for i := 0; i < n; i++ {
		// immediate post-dominator: the strict post-dominator with the
		// largest post-dominator set
		best, bestCount := -1, -1
		for j := 0; j < n; j++ {
			if j != i && has(pd[i], j) {
				if c := count(pd[j]); c > bestCount {
					best, bestCount = j, c
				}
			}
		}
		if best >= 0 {
			res[fn.Blocks[i]] = fn.Blocks[best]
		}
	}
	return res
}

func pureInstr(ins ssa.Instruction) bool {
	switch x := ins.(type) {
	case *ssa.BinOp:
		return x.Op != token.QUO && x.Op != token.REM
	case *ssa.UnOp:
		return x.Op != token.ARROW
	case *ssa.Convert, *ssa.ChangeType, *ssa.ChangeInterface, *ssa.MakeInterface, *ssa.Extract,
		*ssa.Field, *ssa.FieldAddr, *ssa.IndexAddr, *ssa.Index, *ssa.Phi, *ssa.DebugRef, *ssa.Jump, *ssa.If, *ssa.Return:
		return true
	case *ssa.Slice:
		return true
	case *ssa.Call:
		// len/cap/min/max builtins are pure
		if b, ok := x.Call.Value.(*ssa.Builtin); ok {
			switch b.Name() {
			case "len", "cap", "min", "max":
				return true
			}
		}
		return false
	case *ssa.TypeAssert:
		return x.CommaOk
	case *ssa.Lookup:
		return false
	}
	return false
}

func (in *interp) region(fr *frame, b *ssa.BasicBlock) *diamond {
	fi := fr.info
	if fi.pure == nil {
		fi.pure = map[*ssa.BasicBlock]*diamond{}
	}
	if d, ok := fi.pure[b]; ok {
		return d
	}
	d := &diamond{}
	fi.pure[b] = d
	if fi.ipdom == nil {
		fi.ipdom = postDoms(fr.fn)
	}
	j := fi.ipdom[b]
	if j == b {
		return d
	}
	// j == nil: both arms leave the function; the region is then merged at
	// its Return instructions (e.g. abs, min, small predicates)
	if j == nil && fr.fn.Recover != nil {
		return d
	}
	// collect region blocks
	blocks := map[*ssa.BasicBlock]bool{}
	var stack []*ssa.BasicBlock
	for _, s := range b.Succs {
		if s != j {
			stack = append(stack, s)
		}
	}
	for len(stack) > 0 {
		x := stack[len(stack)-1]
		stack = stack[:len(stack)-1]
		if blocks[x] {
			continue
		}
		if x == b {
			return d // cycle through the branching block
		}
		blocks[x] = true
		if len(blocks) > maxRegionBlocks {
			return d
		}
		if len(x.Succs) == 0 {
			if j != nil {
				return d
			}
			if _, isRet := x.Instrs[len(x.Instrs)-1].(*ssa.Return); !isRet {
				return d
			}
		}
		for _, ins := range x.Instrs {
			if !pureInstr(ins) {
				return d
			}
		}
		for _, s := range x.Succs {
			if s != j {
				stack = append(stack, s)
			}
		}
	}
	// acyclicity: DFS colouring
	color := map[*ssa.BasicBlock]int{}
	var cyc func(x *ssa.BasicBlock) bool
	cyc = func(x *ssa.BasicBlock) bool {
		color[x] = 1
		for _, s := range x.Succs {
			if s == j || !blocks[s] {
				continue
			}
			if color[s] == 1 {
				return true
			}
			if color[s] == 0 && cyc(s) {
				return true
			}
		}
		color[x] = 2
		return false
	}
	for x := range blocks {
		if color[x] == 0 && cyc(x) {
			return d
		}
	}
	// region blocks must not be entered from outside (other than via b), and
	// none may dominate the join (its values could be used past the join)
	for x := range blocks {
		if j != nil && x.Dominates(j) {
			return d
		}
		for _, p := range x.Preds {
			if p != b && !blocks[p] {
				return d
			}
		}
	}
	d.join = j
	d.blocks = blocks
	d.ok = true
	return d
}

type specExit struct {
	guard *Term
	pred  *ssa.BasicBlock
	phis  []value
}

// tryIfConvert attempts to merge the region behind a symbolic branch.
func (in *interp) tryIfConvert(fr *frame, instr *ssa.If, c Sym) (value, bool) {
	if in.path == nil || in.cfg.noIfConv {
		return nil, false
	}
	b := instr.Block()
	d := in.region(fr, b)
	if !d.ok {
		return nil, false
	}
	j := d.join
	nphi := 0
	if j != nil {
		nphi = fr.info.firstNonPhi[j]
		if nphi < 0 {
			nphi = 0
		}
	} else {
		if fr.defers != nil {
			return nil, false
		}
		nphi = fr.fn.Signature.Results().Len()
	}
	var exits []specExit
	ok := true
	var walk func(blk, pred *ssa.BasicBlock, guard *Term)
	walk = func(blk, pred *ssa.BasicBlock, guard *Term) {
		if !ok {
			return
		}
		if j != nil && blk == j {
			if len(exits) >= maxRegionPaths {
				ok = false
				return
			}
			ex := specExit{guard: guard, pred: pred}
			pi := -1
			for i, p := range j.Preds {
				if p == pred {
					pi = i
					break
				}
			}
			for _, ins := range j.Instrs[:nphi] {
				ex.phis = append(ex.phis, fr.get(ins.(*ssa.Phi).Edges[pi]))
			}
			exits = append(exits, ex)
			return
		}
		// execute blk speculatively
		first := fr.info.firstNonPhi[blk]
		if first > 0 {
			fr.prevBlock = pred
			in.executePhis(fr, blk, first)
		}
		for _, ins := range blk.Instrs[first:] {
			switch t := ins.(type) {
			case *ssa.Return:
				if j != nil || len(exits) >= maxRegionPaths {
					ok = false
					return
				}
				ex := specExit{guard: guard, pred: blk}
				for _, rv := range t.Results {
					ex.phis = append(ex.phis, fr.get(rv))
				}
				exits = append(exits, ex)
				return
			case *ssa.Jump:
				walk(blk.Succs[0], blk, guard)
				return
			case *ssa.If:
				cv := fr.get(t.Cond)
				switch cv := cv.(type) {
				case bool:
					if cv {
						walk(blk.Succs[0], blk, guard)
					} else {
						walk(blk.Succs[1], blk, guard)
					}
				case Sym:
					// values computed in this block are needed again after
					// the first arm: snapshot the slots of the region
					// every SSA value has its own slot, so the values of this
					// block survive the exploration of the first arm
					walk(blk.Succs[0], blk, in.tt.And(guard, cv.T))
					walk(blk.Succs[1], blk, in.tt.And(guard, in.tt.Not(cv.T)))
				}
				return
			default:
				in.visitInstr(fr, ins)
			}
		}
	}
	saveSpec := in.speculating
	in.speculating = true
	func() {
		defer func() {
			if r := recover(); r != nil {
				if _, isAbort := r.(abortPath); isAbort && !isSpecAbort(r) {
					// genuine abort (budget etc.): propagate
					in.speculating = saveSpec
					panic(r)
				}
				ok = false
			}
		}()
		walk(b.Succs[0], b, c.T)
		walk(b.Succs[1], b, in.tt.Not(c.T))
	}()
	in.speculating = saveSpec
	if !ok || len(exits) == 0 {
		return nil, false
	}
	// merge φ values
	merged := make([]value, nphi)
	for k := 0; k < nphi; k++ {
		v0 := exits[0].phis[k]
		allSame := true
		for _, ex := range exits[1:] {
			if !sameValue(ex.phis[k], v0) {
				allSame = false
				break
			}
		}
		if allSame {
			merged[k] = v0
			continue
		}
		// scalars only
		var acc *Term
		var kind types.BasicKind
		for i := len(exits) - 1; i >= 0; i-- {
			v := exits[i].phis[k]
			if !isScalar(v) {
				return nil, false
			}
			t, kd := in.lift(v)
			if acc == nil {
				acc, kind = t, kd
				continue
			}
			if t.W != acc.W {
				return nil, false
			}
			acc = in.tt.Ite(exits[i].guard, t, acc)
		}
		if kind == types.Bool {
			merged[k] = in.symBool(acc)
		} else {
			merged[k] = in.symInt(acc, kind)
		}
	}
	if j == nil {
		switch nphi {
		case 0:
			fr.result = nil
		case 1:
			fr.result = merged[0]
		default:
			fr.result = tuple(merged)
		}
		fr.block = nil
		fr.retDone = true
		in.stats.IfConverted++
		return nil, true
	}
	for k := 0; k < nphi; k++ {
		fr.set(j.Instrs[k].(*ssa.Phi), merged[k])
	}
	fr.prevBlock = nil
	fr.block = j
	fr.phisDone = true
	in.stats.IfConverted++
	return nil, true
}

func isSpecAbort(r any) bool {
	a, ok := r.(abortPath)
	return ok && a.kind == abortSpec
}

func isScalar(v value) bool {
	switch v.(type) {
	case bool, Sym:
		return true
	}
	_, _, ok := unboxInt(v)
	return ok
}

func sameValue(a, b value) bool {
	switch x := a.(type) {
	case Sym:
		y, ok := b.(Sym)
		return ok && x.T == y.T
	case *value:
		y, ok := b.(*value)
		return ok && x == y
	case string:
		y, ok := b.(string)
		return ok && x == y
	case bool:
		y, ok := b.(bool)
		return ok && x == y
	case float64:
		y, ok := b.(float64)
		return ok && x == y
	case iface:
		y, ok := b.(iface)
		return ok && x.t == y.t && sameValue(x.v, y.v)
	case nil:
		return b == nil
	}
	if ka, ua, ok := unboxInt(a); ok {
		kb, ub, ok2 := unboxInt(b)
		return ok2 && ka == kb && ua == ub
	}
	return false
}

// tryChain merges chains of branches that share a target: the lowering of
// `case a, b, c:` and of `x == a || x == b` (all true-edges lead to the same
// block) and of `x != a && x != b` (all false-edges lead to the same block).
// The chain's conditions are combined into one disjunction / conjunction so
// that a switch on a symbolic byte forks once per case body, not once per
// case value.
func (in *interp) tryChain(fr *frame, instr *ssa.If, c Sym) bool {
	if in.path == nil || in.cfg.noIfConv || in.speculating {
		return false
	}
	b := instr.Block()
	for pol := 0; pol < 2; pol++ {
		shared := b.Succs[pol] // pol 0: shared true target (or-chain); 1: shared false target (and-chain)
		cur := b.Succs[1-pol]
		if cur == shared {
			continue
		}
		cond := c.T
		last := b
		preds := []*ssa.BasicBlock{b}
		n := 0
		ok := true
		func() {
			defer func() {
				if r := recover(); r != nil {
					if a, isAbort := r.(abortPath); isAbort && a.kind != abortSpec {
						in.speculating = false
						panic(r)
					}
					ok = false
				}
			}()
			in.speculating = true
			defer func() { in.speculating = false }()
			for n < 64 {
				if len(cur.Preds) != 1 || len(cur.Succs) != 2 || cur.Succs[pol] != shared || cur == b {
					break
				}
				pure := true
				for _, ins := range cur.Instrs {
					if _, isPhi := ins.(*ssa.Phi); isPhi || !pureInstr(ins) {
						pure = false
						break
					}
				}
				if !pure {
					break
				}
				var cv value
				for _, ins := range cur.Instrs {
					if t, isIf := ins.(*ssa.If); isIf {
						cv = fr.get(t.Cond)
						break
					}
					in.visitInstr(fr, ins)
				}
				var ct *Term
				switch x := cv.(type) {
				case bool:
					ct = in.tt.Bool(x)
				case Sym:
					ct = x.T
				default:
					ok = false
					return
				}
				if pol == 0 {
					cond = in.tt.Or(cond, ct)
				} else {
					cond = in.tt.And(cond, ct)
				}
				last = cur
				preds = append(preds, cur)
				cur = cur.Succs[1-pol]
				n++
			}
		}()
		if !ok || n == 0 {
			continue
		}
		// φ-nodes of the shared target must not distinguish the chain members
		if first := fr.info.firstNonPhi[shared]; first > 0 {
			same := true
			for _, ins := range shared.Instrs[:first] {
				phi := ins.(*ssa.Phi)
				var v0 value
				set := false
				for i, p := range shared.Preds {
					member := false
					for _, q := range preds {
						if q == p {
							member = true
						}
					}
					if !member {
						continue
					}
					v := fr.get(phi.Edges[i])
					if !set {
						v0, set = v, true
					} else if !sameValue(v, v0) {
						same = false
					}
				}
				if !same {
					break
				}
			}
			if !same {
				continue
			}
		}
		// one decision for the whole chain
		res := in.truth(in.symBool(cond))
		toShared := (pol == 0 && res) || (pol == 1 && !res)
		if toShared {
			fr.prevBlock, fr.block = b, shared
		} else {
			fr.prevBlock, fr.block = last, cur
		}
		in.stats.IfConverted++
		return true
	}
	return false
}
