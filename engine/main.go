package main

// gosym: bounded symbolic execution of go/ssa with an SMT back end.
//
//   gosym check -id C12 -tier quick      run all harnesses of a property
//   gosym replay -id C12 -file F         replay a counterexample natively

import (
	"runtime"
	"runtime/debug"
	"runtime/pprof"
	"encoding/json"
	"flag"
	"fmt"
	"os"
	"path/filepath"
	"regexp"
	"sort"
	"strconv"
	"strings"
	"time"

	"golang.org/x/tools/go/ssa"
)

func main() {
	if len(os.Args) < 2 {
		fmt.Fprintln(os.Stderr, "usage: gosym check|replay [flags]")
		os.Exit(2)
	}
	switch os.Args[1] {
	case "check":
		os.Exit(cmdCheck(os.Args[2:]))
	case "replay":
		os.Exit(cmdReplay(os.Args[2:]))
	default:
		fmt.Fprintln(os.Stderr, "unknown command", os.Args[1])
		os.Exit(2)
	}
}

var harnessFuncRe = regexp.MustCompile(`(?m)^func (Verif_(C[0-9]+)_[A-Za-z0-9_]+)\(\)`)

// scanHarnesses finds the harness directories (relative to harnessDir) that
// declare harness functions for property id.
func scanHarnesses(harnessDir, id string) (rels []string, names map[string][]string, err error) {
	names = map[string][]string{}
	err = filepath.Walk(harnessDir, func(path string, info os.FileInfo, err error) error {
		if err != nil || info.IsDir() || !strings.HasSuffix(path, ".go") {
			return err
		}
		b, err := os.ReadFile(path)
		if err != nil {
			return err
		}
		for _, m := range harnessFuncRe.FindAllStringSubmatch(string(b), -1) {
			if m[2] == id {
				rel, _ := filepath.Rel(harnessDir, filepath.Dir(path))
				names[rel] = append(names[rel], m[1])
			}
		}
		return nil
	})
	for r := range names {
		rels = append(rels, r)
	}
	sort.Strings(rels)
	return
}

func cmdCheck(args []string) int {
	fs := flag.NewFlagSet("check", flag.ExitOnError)
	id := fs.String("id", "", "property id (C01…)")
	tier := fs.String("tier", "quick", "quick|thorough")
	repo := fs.String("repo", "/repo", "repository working tree")
	verif := fs.String("verif", "/verif", "verification directory")
	only := fs.String("harness", "", "regexp restricting harness names")
	workers := fs.Int("workers", 0, "number of workers (default: min(16, cores))")
	solver := fs.String("solver", "z3-new", "z3-new (5.1.0) | z3 (4.8.12) | cvc5")
	verbose := fs.Bool("v", false, "verbose")
	noReplay := fs.Bool("no-replay", false, "skip native replay/validation (debugging)")
	budget := fs.Duration("budget", 0, "per-harness wall-clock budget override")
	cpuprof := fs.String("cpuprofile", "", "write a CPU profile")
	profile := fs.Bool("profile", false, "count symbolic branch sites")
	qto := fs.Int("qtimeout", 0, "primary solver per-query timeout in ms")
	slicing := fs.Bool("slicing", false, "constraint-independence slicing (non-incremental queries)")
	noIfConv := fs.Bool("no-ifconv", false, "disable if-conversion (debugging)")
	twin := fs.Bool("twin", false, "vacuity twin: negate every final assertion (must be violated)")
	fs.Parse(args)
	if *id == "" {
		fmt.Fprintln(os.Stderr, "missing -id")
		return 2
	}
	if *cpuprof != "" {
		f, _ := os.Create(*cpuprof)
		pprof.StartCPUProfile(f)
		defer pprof.StopCPUProfile()
	}
	debug.SetGCPercent(400)
	t0 := time.Now()
	cfg := defaultConfig(*tier)
	if *workers > 0 {
		cfg.workers = *workers
	}
	cfg.solverKind = *solver
	// goroutines blocked on a solver pipe need no P; spare Ps keep wake-up
	// latency low when all workers are busy
	runtime.GOMAXPROCS(max(32, 2*cfg.workers))
	cfg.verbose = *verbose
	cfg.debugHostPanics = *verbose
	if *budget > 0 {
		cfg.harnessBudget = *budget
	}
	if s := os.Getenv("VERIF_SEED"); s != "" {
		cfg.seed, _ = strconv.ParseInt(s, 10, 64)
	}
	_ = twin
	cfg.slicing = *slicing
	cfg.profile = *profile
	if *qto > 0 {
		cfg.queryTimeoutMs = *qto
	}
	cfg.noIfConv = *noIfConv

	harnessDir := filepath.Join(*verif, "harness")
	rels, names, err := scanHarnesses(harnessDir, *id)
	if err != nil || len(rels) == 0 {
		fmt.Fprintf(os.Stderr, "no harnesses for %s (%v)\n", *id, err)
		return 2
	}
	// harness directories with a variant suffix ("dir@variant") carry
	// reduced-parameter patches and are loaded as separate programs
	groups := [][]string{}
	var plain []string
	for _, r := range rels {
		if strings.Contains(r, "@") {
			groups = append(groups, []string{r})
		} else {
			plain = append(plain, r)
		}
	}
	if len(plain) > 0 {
		groups = append([][]string{plain}, groups...)
	}
	var onlyRe *regexp.Regexp
	if *only != "" {
		onlyRe = regexp.MustCompile(*only)
	}
	rep := &report{ID: *id, Tier: *tier, Seed: cfg.seed, start: t0, verif: *verif, repo: *repo, cfg: cfg, names: names}
	defer func() {
		if patchTmp != "" {
			os.RemoveAll(patchTmp)
		}
	}()
	for _, grels := range groups {
		overlay, realOf, err := buildOverlay(*repo, harnessDir, grels)
		if err != nil {
			fmt.Fprintln(os.Stderr, "INTERNAL-ERROR overlay:", err)
			return 2
		}
		ld, err := loadProgram(*repo, overlay, realOf, grels)
		if err != nil {
			fmt.Fprintln(os.Stderr, "INTERNAL-ERROR load:", err)
			return 2
		}
		fmt.Printf("loaded %d packages in %.1fs %v\n", len(ld.pkgs), ld.loadTime.Seconds(), grels)
		rep.ld = ld
		rep.loadS += ld.loadTime.Seconds()
		var ws []*worker
		for i := 0; i < cfg.workers; i++ {
			w, err := newWorker(i, ld.prog, cfg)
			if err != nil {
				fmt.Fprintln(os.Stderr, "INTERNAL-ERROR solver:", err)
				return 2
			}
			ws = append(ws, w)
		}
		for _, rel := range grels {
			p := ld.pkgs[pkgPathOf(rel)]
			if p == nil {
				fmt.Fprintf(os.Stderr, "INTERNAL-ERROR package %s not loaded\n", pkgPathOf(rel))
				return 2
			}
			for _, fn := range harnessFuncs(p, *id) {
				if onlyRe != nil && !onlyRe.MatchString(fn.Name()) {
					continue
				}
				j := newJob(fn.Name(), fn, cfg)
				j.rel = rel
				j.ld = ld
				th := time.Now()
				runJob(j, ws, cfg)
				j.wall = time.Since(th)
				rep.jobs = append(rep.jobs, j)
				fmt.Printf("  %-44s paths=%d %v viol=%d notcov=%d  %.1fs\n", fn.Name(), j.paths, j.statusCount, len(j.violations), len(j.notCovered), j.wall.Seconds())
				if *verbose {
					fmt.Printf("      infeasible: %v\n", j.infeasibleWhy)
				}
				seenMsg := map[string]bool{}
				for _, v := range j.violations {
					if k := v.Label + ": " + v.Msg; !seenMsg[k] {
						seenMsg[k] = true
						fmt.Printf("      engine counterexample: %s\n", k)
					}
				}
				for _, k := range sortedKeys(j.notCovered) {
					fmt.Printf("      not covered: %s (×%d)\n", k, j.notCovered[k])
				}
			}
		}
		for _, w := range ws {
			rep.solver.add(w.in.solver.stats)
			rep.instrs += w.in.stats.Instrs
			w.in.solver.Close()
		}
	}
	if cfg.profile {
		cfg.dumpSites()
	}
	return rep.finish(!*noReplay)
}

func (s *SolverStats) add(o SolverStats) {
	s.Queries += o.Queries
	s.Sat += o.Sat
	s.Unsat += o.Unsat
	s.Unknown += o.Unknown
	s.Time += o.Time
	if o.MaxQuery > s.MaxQuery {
		s.MaxQuery = o.MaxQuery
	}
	s.Restarts += o.Restarts
	s.Fallbacks += o.Fallbacks
	s.Errors += o.Errors
	s.SendTime += o.SendTime
	s.ValueTime += o.ValueTime
}

type report struct {
	ID     string
	Tier   string
	Seed   int64
	start  time.Time
	verif  string
	repo   string
	ld     *loaded
	cfg    *runConfig
	names  map[string][]string
	jobs   []*job
	solver SolverStats
	instrs int64
	loadS  float64
}

var _ = json.Marshal
var _ *ssa.Function
