package main

// The interpreter proper: frames, instruction dispatch, calls, builtins.
// Structure after x/tools go/ssa/interp; values live in slot arrays instead
// of maps, stores are logged for rollback, and every place that needs a
// concrete decision from a symbolic value goes through the path explorer
// (truth / concretize in path.go).

import (
	"time"
	"fmt"
	"go/token"
	"go/types"
	"os"
	"runtime"
	"strings"

	"golang.org/x/tools/go/ssa"
)

type undoEntry struct {
	p   *value
	old value
	fn  func()
}

type deferred struct {
	fn    value
	args  []value
	instr *ssa.Defer
	tail  *deferred
}

type funcInfo struct {
	slots  map[ssa.Value]int
	nslots int
	// per block: index of first non-phi instruction
	firstNonPhi map[*ssa.BasicBlock]int
	ext         externalFn
	extChecked  bool
	pure        map[*ssa.BasicBlock]*diamond // if-conversion candidates keyed by branching block
	ipdom       map[*ssa.BasicBlock]*ssa.BasicBlock
}

type frame struct {
	in               *interp
	caller           *frame
	fn               *ssa.Function
	info             *funcInfo
	block, prevBlock *ssa.BasicBlock
	env              []value
	defers           *deferred
	result           value
	panicking        bool
	panic            any
	visits           map[*ssa.BasicBlock]int
	phisDone         bool
	retDone          bool
	isInit           bool
}

// interp is the state of one worker.
type interp struct {
	prog      *ssa.Program
	tt        *termTable
	globals   map[*ssa.Global]*value
	infos     map[*ssa.Function]*funcInfo
	consts    map[*ssa.Const]value
	pkgInit   map[*ssa.Package]int // 0 = no, 1 = running, 2 = done
	undo      []undoEntry
	logging   bool
	ar        arena // path-local cells (stores into them are not logged)
	identCache map[typePair]bool
	implCache  map[typePair]bool
	methodCache map[methodKey]*ssa.Function

	maxIteTable int
	maxIteStore int

	path   *pathState // current path
	solver *Solver
	cfg    *runConfig
	stats  workerStats
	depth  int

	runtimeErrorType types.Type
	errorStringType  types.Type // *errors.errorString
	wrapErrorType    types.Type // *fmt.wrapError
	wrapErrorsType   types.Type
	covered map[*ssa.Function]bool
	sched *scheduler
	speculating bool
	atomCache map[int32][]*Term
	zlibWs    map[*value]*zlibW
	zlibRs    map[*value]*zlibR
	pools     map[*value][]value // sync.Pool contents (per path)
	inVerifrt int
	curInstr  ssa.Instruction
	curPos    string
	curFn     *ssa.Function
}

type methodKey struct {
	t    types.Type
	name string
	pkg  *types.Package
}

type workerStats struct {
	Instrs     int64
	Paths      int
	Decisions  int64
	IfConverted int64
}

func newInterp(prog *ssa.Program, cfg *runConfig) *interp {
	in := &interp{
		prog:        prog,
		tt:          newTermTable(),
		globals:     map[*ssa.Global]*value{},
		infos:       map[*ssa.Function]*funcInfo{},
		consts:      map[*ssa.Const]value{},
		pkgInit:     map[*ssa.Package]int{},
		identCache:  map[typePair]bool{},
		implCache:   map[typePair]bool{},
		methodCache: map[methodKey]*ssa.Function{},
		maxIteTable: 512,
		maxIteStore: 64,
		cfg:         cfg,
		covered:     map[*ssa.Function]bool{},
	}
	if p := prog.ImportedPackage("runtime"); p != nil {
		if t := p.Type("Error"); t != nil {
			in.runtimeErrorType = t.Type()
		}
	}
	if p := prog.ImportedPackage("errors"); p != nil {
		if t := p.Type("errorString"); t != nil {
			in.errorStringType = types.NewPointer(t.Type())
		}
	}
	if p := prog.ImportedPackage("fmt"); p != nil {
		if t := p.Type("wrapError"); t != nil {
			in.wrapErrorType = types.NewPointer(t.Type())
		}
		if t := p.Type("wrapErrors"); t != nil {
			in.wrapErrorsType = types.NewPointer(t.Type())
		}
	}
	return in
}

func (in *interp) logUndo(fn func()) {
	if in.logging {
		in.undo = append(in.undo, undoEntry{fn: fn})
	}
}

// rollback undoes every logged store (newest first).
func (in *interp) rollback() {
	for i := len(in.undo) - 1; i >= 0; i-- {
		e := &in.undo[i]
		if e.fn != nil {
			e.fn()
		} else {
			*e.p = e.old
		}
		in.undo[i] = undoEntry{}
	}
	in.undo = in.undo[:0]
}

func (in *interp) global(g *ssa.Global) *value {
	if p, ok := in.globals[g]; ok {
		return p
	}
	in.ensureInit(g.Pkg)
	if p, ok := in.globals[g]; ok {
		return p
	}
	// global of a package without init function (should not happen)
	cell := zero(mustDeref(g.Type()))
	in.globals[g] = &cell
	return &cell
}

// ensureInit lazily runs the initialiser of pkg, outside the undo log, so
// that the initialised state persists across paths.
func (in *interp) ensureInit(pkg *ssa.Package) {
	if pkg == nil || in.pkgInit[pkg] != 0 {
		return
	}
	in.pkgInit[pkg] = 1
	for _, m := range pkg.Members {
		if g, ok := m.(*ssa.Global); ok {
			cell := zero(mustDeref(g.Type()))
			in.globals[g] = &cell
		}
	}
	if nativeInitPackages[pkg.Pkg.Path()] {
		in.nativeInit(pkg)
		in.pkgInit[pkg] = 2
		return
	}
	saveLog, savePath, saveDepth := in.logging, in.path, in.depth
	in.logging = false
	in.path = nil
	defer func() {
		in.logging, in.path, in.depth = saveLog, savePath, saveDepth
		if r := recover(); r != nil {
			in.pkgInit[pkg] = 2
			if a, ok := r.(abortPath); ok {
				panic(abortPath{a.kind, "in init of " + pkg.Pkg.Path() + ": " + a.msg})
			}
			panic(abortPath{abortUnsupported, fmt.Sprintf("init of %s panicked: %v", pkg.Pkg.Path(), r)})
		}
	}()
	if f := pkg.Func("init"); f != nil {
		in.call(nil, token.NoPos, f, nil)
	}
	in.pkgInit[pkg] = 2
}

func (in *interp) info(fn *ssa.Function) *funcInfo {
	if fi, ok := in.infos[fn]; ok {
		return fi
	}
	fi := &funcInfo{slots: map[ssa.Value]int{}, firstNonPhi: map[*ssa.BasicBlock]int{}}
	n := 0
	add := func(v ssa.Value) {
		fi.slots[v] = n
		n++
	}
	for _, p := range fn.Params {
		add(p)
	}
	for _, p := range fn.FreeVars {
		add(p)
	}
	for _, b := range fn.Blocks {
		first := -1
		for i, ins := range b.Instrs {
			if v, ok := ins.(ssa.Value); ok {
				add(v)
			}
			if _, ok := ins.(*ssa.Phi); !ok && first < 0 {
				first = i
			}
		}
		fi.firstNonPhi[b] = first
	}
	fi.nslots = n
	in.infos[fn] = fi
	return fi
}

func (fr *frame) get(key ssa.Value) value {
	switch key := key.(type) {
	case nil:
		return nil
	case *ssa.Function:
		return key
	case *ssa.Builtin:
		return key
	case *ssa.Const:
		if v, ok := fr.in.consts[key]; ok {
			return v
		}
		v := fr.in.constValue(key)
		fr.in.consts[key] = v
		return copyVal(v)
	case *ssa.Global:
		return fr.in.global(key)
	}
	if i, ok := fr.info.slots[key]; ok {
		return fr.env[i]
	}
	panic(fmt.Sprintf("get: no value for %T: %v", key, key.Name()))
}

func (fr *frame) set(key ssa.Value, v value) {
	fr.env[fr.info.slots[key]] = v
}

func (fr *frame) runDefer(d *deferred) {
	var ok bool
	defer func() {
		if !ok {
			r := recover()
			if _, isAbort := r.(abortPath); isAbort {
				panic(r)
			}
			fr.panicking = true
			fr.panic = r
		}
	}()
	fr.in.call(fr, d.instr.Pos(), d.fn, d.args)
	ok = true
}

func (fr *frame) runDefers() {
	for d := fr.defers; d != nil; d = d.tail {
		fr.runDefer(d)
	}
	fr.defers = nil
	if fr.panicking {
		panic(fr.panic)
	}
}

func (in *interp) lookupMethod(typ types.Type, meth *types.Func) *ssa.Function {
	k := methodKey{typ, meth.Name(), meth.Pkg()}
	if f, ok := in.methodCache[k]; ok {
		return f
	}
	f := in.prog.LookupMethod(typ, meth.Pkg(), meth.Name())
	in.methodCache[k] = f
	return f
}

func (in *interp) visitInstr(fr *frame, instr ssa.Instruction) bool {
	if in.sched != nil {
		in.curInstr, in.curFn = instr, fr.fn
	}
	switch instr := instr.(type) {
	case *ssa.DebugRef:

	case *ssa.UnOp:
		fr.set(instr, in.unop(instr, fr.get(instr.X)))

	case *ssa.BinOp:
		fr.set(instr, in.binop(instr.Op, instr.X.Type(), fr.get(instr.X), fr.get(instr.Y)))

	case *ssa.Call:
		if fr.isInit {
			// package initialisers: an initialiser the engine cannot run
			// (e.g. template.Must(...Parse...)) poisons only its own variable
			in.initCall(fr, instr)
			break
		}
		fn, args := in.prepareCall(fr, &instr.Call)
		fr.set(instr, in.call(fr, instr.Pos(), fn, args))

	case *ssa.ChangeInterface:
		fr.set(instr, fr.get(instr.X))

	case *ssa.ChangeType:
		fr.set(instr, fr.get(instr.X))

	case *ssa.Convert:
		fr.set(instr, in.conv(instr.Type(), instr.X.Type(), fr.get(instr.X)))

	case *ssa.MultiConvert:
		fr.set(instr, in.conv(instr.Type(), instr.X.Type(), fr.get(instr.X)))

	case *ssa.SliceToArrayPointer:
		x := fr.get(instr.X).([]value)
		n := instr.Type().Underlying().(*types.Pointer).Elem().Underlying().(*types.Array).Len()
		if int64(len(x)) < n {
			panic(runtimePanic{"cannot convert slice to array pointer: length too short"})
		}
		if x == nil {
			fr.set(instr, (*value)(nil))
		} else {
			v := value(array(x[:n:n]))
			fr.set(instr, &v)
		}

	case *ssa.MakeInterface:
		fr.set(instr, iface{t: instr.X.Type(), v: fr.get(instr.X)})

	case *ssa.Extract:
		fr.set(instr, fr.get(instr.Tuple).(tuple)[instr.Index])

	case *ssa.Slice:
		fr.set(instr, in.slice(fr.get(instr.X), fr.get(instr.Low), fr.get(instr.High), fr.get(instr.Max)))

	case *ssa.Return:
		switch len(instr.Results) {
		case 0:
		case 1:
			fr.result = fr.get(instr.Results[0])
		default:
			res := make(tuple, len(instr.Results))
			for i, r := range instr.Results {
				res[i] = fr.get(r)
			}
			fr.result = res
		}
		fr.block = nil
		return true

	case *ssa.RunDefers:
		fr.runDefers()

	case *ssa.Panic:
		panic(targetPanic{fr.get(instr.X)})

	case *ssa.Send:
		in.chanSend(fr.get(instr.Chan).(*Chan), fr.get(instr.X))

	case *ssa.Store:
		in.store(fr.get(instr.Addr), fr.get(instr.Val))

	case *ssa.If:
		succ := 1
		c := fr.get(instr.Cond)
		var b bool
		switch c := c.(type) {
		case bool:
			b = c
		case Sym:
			if _, ok := in.tryIfConvert(fr, instr, c); ok {
				if fr.retDone {
					return true
				}
				return false
			}
			if in.tryChain(fr, instr, c) {
				return false
			}
			if in.cfg.profile {
				in.cfg.noteSite(fr.fn.String() + ":" + in.posString(instr.Cond.Pos()))
			}
			b = in.truth(c)
		}
		if b {
			succ = 0
		}
		fr.prevBlock, fr.block = fr.block, fr.block.Succs[succ]
		return false

	case *ssa.Jump:
		fr.prevBlock, fr.block = fr.block, fr.block.Succs[0]
		return false

	case *ssa.Defer:
		fn, args := in.prepareCall(fr, &instr.Call)
		defers := &fr.defers
		if instr.DeferStack != nil {
			if into := fr.get(instr.DeferStack); into != nil {
				defers = into.(**deferred)
			}
		}
		*defers = &deferred{fn: fn, args: args, instr: instr, tail: *defers}

	case *ssa.Go:
		fn, args := in.prepareCall(fr, &instr.Call)
		in.goStart(fr, instr, fn, args)

	case *ssa.MakeChan:
		n := in.concreteInt(fr.get(instr.Size), "chan-size")
		fr.set(instr, in.makeChan(int(n), instr.Type().Underlying().(*types.Chan).Elem()))

	case *ssa.Alloc:
		// fresh cell per execution of the Alloc (heap or local alike)
		addr := in.newCell()
		*addr = in.zeroV(mustDeref(instr.Type()))
		fr.set(instr, addr)

	case *ssa.MakeSlice:
		tElt := instr.Type().Underlying().(*types.Slice).Elem()
		n := in.allocSize(fr.get(instr.Len), "make-len", instr)
		c := in.allocSize(fr.get(instr.Cap), "make-cap", instr)
		if n < 0 || c < n {
			panic(runtimePanic{"makeslice: len out of range"})
		}
		if c > in.cfg.maxAlloc {
			panic(in.unsupported(fmt.Sprintf("makeslice of %d elements exceeds engine limit", c)))
		}
		s := in.newVals(c)
		z := zero(tElt)
		switch z.(type) {
		case structure, array:
			for i := range s {
				s[i] = in.zeroV(tElt)
			}
		default:
			for i := range s {
				s[i] = z
			}
		}
		fr.set(instr, s[:n])

	case *ssa.MakeMap:
		fr.set(instr, newMap(instr.Type().Underlying().(*types.Map).Key()))

	case *ssa.Range:
		fr.set(instr, in.rangeIter(fr.get(instr.X)))

	case *ssa.Next:
		fr.set(instr, fr.get(instr.Iter).(iter).next(in))

	case *ssa.FieldAddr:
		p := fr.get(instr.X).(*value)
		if p == nil {
			panic(runtimePanic{"invalid memory address or nil pointer dereference"})
		}
		fr.set(instr, &(*p).(structure)[instr.Field])

	case *ssa.Field:
		fr.set(instr, copyVal(fr.get(instr.X).(structure)[instr.Field]))

	case *ssa.IndexAddr:
		x := fr.get(instr.X)
		idx := fr.get(instr.Index)
		var base []value
		switch x := x.(type) {
		case []value:
			base = x
		case *value:
			if x == nil {
				panic(runtimePanic{"invalid memory address or nil pointer dereference"})
			}
			base = (*x).(array)
		default:
			panic(fmt.Sprintf("unexpected x type in IndexAddr: %T", x))
		}
		if s, ok := idx.(Sym); ok {
			fr.set(instr, in.symIndex(base, s))
		} else {
			i := asInt64(idx)
			if i < 0 || i >= int64(len(base)) {
				panic(runtimePanic{fmt.Sprintf("index out of range [%d] with length %d", i, len(base))})
			}
			fr.set(instr, &base[i])
		}

	case *ssa.Index:
		x := fr.get(instr.X)
		idx := fr.get(instr.Index)
		var base []value
		switch x := x.(type) {
		case array:
			base = x
		case string:
			if s, ok := idx.(Sym); ok {
				base = strBytes(x)
				fr.set(instr, in.loadSym(in.symIndex(base, s).(symPtr)))
				return false
			}
			i := asInt64(idx)
			if i < 0 || i >= int64(len(x)) {
				panic(runtimePanic{fmt.Sprintf("index out of range [%d] with length %d", i, len(x))})
			}
			fr.set(instr, x[i])
			return false
		case *SymStr:
			base = x.B
		default:
			panic(fmt.Sprintf("unexpected x type in Index: %T", x))
		}
		if s, ok := idx.(Sym); ok {
			p := in.symIndex(base, s)
			fr.set(instr, in.load(nil, p))
		} else {
			i := asInt64(idx)
			if i < 0 || i >= int64(len(base)) {
				panic(runtimePanic{fmt.Sprintf("index out of range [%d] with length %d", i, len(base))})
			}
			fr.set(instr, copyVal(base[i]))
		}

	case *ssa.Lookup:
		fr.set(instr, in.lookup(instr, fr.get(instr.X), fr.get(instr.Index)))

	case *ssa.MapUpdate:
		m := fr.get(instr.Map).(*Map)
		if m == nil {
			panic(targetPanic{iface{types.Typ[types.String], "assignment to entry in nil map"}})
		}
		m.insert(in, fr.get(instr.Key), fr.get(instr.Value))

	case *ssa.TypeAssert:
		fr.set(instr, in.typeAssert(instr, fr.get(instr.X).(iface)))

	case *ssa.MakeClosure:
		bindings := make([]value, len(instr.Bindings))
		for i, b := range instr.Bindings {
			bindings[i] = fr.get(b)
		}
		fr.set(instr, &closure{instr.Fn.(*ssa.Function), bindings})

	case *ssa.Select:
		fr.set(instr, in.doSelect(fr, instr))

	default:
		panic(fmt.Sprintf("unexpected instruction: %T", instr))
	}
	return false
}

// symIndex performs the bounds check for a symbolic index and returns a
// pointer (concrete if only one index is possible).
func (in *interp) symIndex(base []value, s Sym) value {
	tt := in.tt
	t := s.T
	if t.W < 64 {
		if kindSigned(s.K) {
			t = tt.Sext(t, 64)
		} else {
			t = tt.Zext(t, 64)
		}
	}
	inRange := tt.Cmp(OpUlt, t, tt.Const(64, uint64(len(base))))
	if !in.truth(Sym{inRange, types.Bool}) {
		panic(runtimePanic{fmt.Sprintf("index out of range [symbolic] with length %d", len(base))})
	}
	if len(base) == 1 {
		return &base[0]
	}
	return symPtr{base: base, idx: t}
}

func (in *interp) lookup(instr *ssa.Lookup, x, idx value) value {
	switch x := x.(type) {
	case *Map:
		v, ok := x.lookup(in, idx)
		if !ok {
			v = zero(instr.X.Type().Underlying().(*types.Map).Elem())
		} else {
			v = copyVal(v)
		}
		if instr.CommaOk {
			return tuple{v, ok}
		}
		return v
	case string, *SymStr:
		// string index handled by ssa.Index; Lookup on string: s[i]
		b := strBytes(x)
		if s, ok := idx.(Sym); ok {
			return in.load(nil, in.symIndex(b, s))
		}
		i := asInt64(idx)
		if i < 0 || i >= int64(len(b)) {
			panic(runtimePanic{"index out of range"})
		}
		return b[i]
	}
	panic(fmt.Sprintf("unexpected x type in Lookup: %T", x))
}

func (in *interp) prepareCall(fr *frame, call *ssa.CallCommon) (fn value, args []value) {
	v := fr.get(call.Value)
	if call.Method == nil {
		fn = v
		args = make([]value, 0, len(call.Args))
	} else {
		recv := v.(iface)
		if recv.t == nil {
			panic(runtimePanic{"invalid memory address or nil pointer dereference (method call on nil interface " + call.Method.Name() + " in " + fr.fn.String() + ")"})
		}
		if recv.t == rtypeType {
			name := call.Method.Name()
			fn = native{func(in *interp, args []value) value { return in.rtypeMethod(name, args) }}
			args = append(args, recv.v)
			for _, arg := range call.Args {
				args = append(args, fr.get(arg))
			}
			return
		}
		f := in.lookupMethod(recv.t, call.Method)
		if f == nil {
			panic(fmt.Sprintf("method set for dynamic type %v does not contain %s", recv.t, call.Method))
		}
		fn = f
		args = make([]value, 0, len(call.Args)+1)
		args = append(args, recv.v)
	}
	for _, arg := range call.Args {
		args = append(args, fr.get(arg))
	}
	return
}

func (in *interp) call(caller *frame, callpos token.Pos, fn value, args []value) value {
	switch fn := fn.(type) {
	case *ssa.Function:
		if fn == nil {
			panic(runtimePanic{"invalid memory address or nil pointer dereference (call of nil func)"})
		}
		return in.callSSA(caller, callpos, fn, args, nil)
	case *closure:
		return in.callSSA(caller, callpos, fn.Fn, args, fn.Env)
	case *ssa.Builtin:
		return in.callBuiltin(caller, fn, args)
	case native:
		if f, ok := fn.v.(func(in *interp, args []value) value); ok {
			return f(in, args)
		}
	}
	panic(fmt.Sprintf("cannot call %T", fn))
}

func (in *interp) posString(pos token.Pos) string {
	if pos == token.NoPos {
		return "?"
	}
	p := in.prog.Fset.Position(pos)
	return fmt.Sprintf("%s:%d", p.Filename, p.Line)
}

func (in *interp) callSSA(caller *frame, callpos token.Pos, fn *ssa.Function, args []value, env []value) value {
	fi := in.info(fn)
	if !fi.extChecked {
		fi.extChecked = true
		fi.ext = findExternal(fn)
	}
	if caller != nil && fn.Synthetic != "" && fn.Name() == "init" && fn.Pkg != nil && fn == fn.Pkg.Func("init") {
		// imported package initialisers are run lazily (ensureInit)
		return nil
	}
	fr := &frame{in: in, caller: caller, fn: fn, info: fi}
	if fi.ext != nil {
		if r, handled := fi.ext(fr, args); handled {
			return r
		}
	}
	if fn.Pkg != nil && in.pkgInit[fn.Pkg] == 0 && fn.Name() != "init" {
		in.ensureInit(fn.Pkg)
	}
	if fn.Blocks == nil {
		panic(in.unsupported("no code for function: " + fn.String()))
	}
	if fn.TypeParams().Len() > 0 && len(fn.TypeArgs()) == 0 {
		panic(in.unsupported("uninstantiated generic function " + fn.String()))
	}
	in.depth++
	if in.depth > in.cfg.maxDepth {
		in.depth--
		if in.path != nil && in.path.unwindViolates && !in.speculating {
			in.ensureModel()
			in.reportViolation("terminates", fmt.Sprintf("call depth %d exceeded in %s (unbounded recursion)", in.cfg.maxDepth, fn), in.path.model)
			panic(abortPath{abortStop, "termination bound exceeded"})
		}
		panic(in.abort(abortUnwind, "call depth limit exceeded in "+fn.String()))
	}
	defer func() { in.depth-- }()
	// inVerifrt describes the function that is executing (not its callers):
	// the scheduler's own bookkeeping is exempt from race checking, code
	// called from it (goroutine bodies) is not
	savedV := in.inVerifrt
	if fn.Pkg != nil && fn.Pkg.Pkg.Path() == verifrtPath {
		in.inVerifrt = 1
	} else {
		in.inVerifrt = 0
	}
	defer func() { in.inVerifrt = savedV }()
	if in.logging && fn.Pkg != nil {
		in.covered[fn] = true
	}
	fr.isInit = fn.Synthetic != "" && fn.Pkg != nil && fn == fn.Pkg.Func("init")
	fr.env = make([]value, fi.nslots)
	fr.block = fn.Blocks[0]
	for i := range fn.Params {
		fr.env[i] = args[i]
	}
	np := len(fn.Params)
	for i := range fn.FreeVars {
		fr.env[np+i] = env[i]
	}
	for fr.block != nil {
		in.runFrame(fr)
	}
	return fr.result
}

func (in *interp) runFrame(fr *frame) {
	defer func() {
		if fr.block == nil {
			return // normal return
		}
		r := recover()
		if a, ok := r.(abortPath); ok {
			panic(a)
		}
		if e, ok := r.(runtime.Error); ok && in.cfg.debugHostPanics {
			buf := make([]byte, 1<<14)
			n := runtime.Stack(buf, false)
			fmt.Fprintf(os.Stderr, "host runtime error in %s: %v\n%s\n", fr.fn, e, buf[:n])
		}
		fr.panicking = true
		fr.panic = r
		func() {
			fr.runDefers()
		}()
		fr.block = fr.fn.Recover
		if fr.block == nil {
			// no named results: return zero values
			fr.result = zero(fr.fn.Signature.Results())
			if fr.fn.Signature.Results().Len() == 0 {
				fr.result = nil
			}
		}
	}()

	for {
		b := fr.block
		if in.path != nil {
			if len(b.Preds) > 1 {
				if fr.visits == nil {
					fr.visits = map[*ssa.BasicBlock]int{}
				}
				fr.visits[b]++
				if fr.visits[b] > in.path.unwind {
					if in.path.unwindViolates && !in.speculating {
						in.ensureModel()
						in.reportViolation("terminates", fmt.Sprintf("loop at %s in %s still running after %d iterations", in.posString(firstPos(b)), fr.fn, in.path.unwind), in.path.model)
						panic(abortPath{abortStop, "termination bound exceeded"})
					}
					panic(in.abort(abortUnwind, fmt.Sprintf("loop bound %d exceeded in %s at %s", in.path.unwind, fr.fn, in.posString(firstPos(b)))))
				}
			}
			in.path.instrs += int64(len(b.Instrs))
			if in.path.instrs > in.cfg.maxInstrs {
				panic(in.abort(abortBudget, "instruction budget exceeded"))
			}
			in.path.ticks++
			if in.path.ticks&1023 == 0 && time.Since(in.path.start) > in.cfg.pathBudget {
				panic(in.abort(abortBudget, "per-path wall-clock budget exceeded"))
			}
		}
		in.stats.Instrs += int64(len(b.Instrs))
		first := fr.info.firstNonPhi[b]
		if first > 0 {
			if fr.phisDone {
				fr.phisDone = false
			} else {
				in.executePhis(fr, b, first)
			}
		}
		instrs := b.Instrs
		for i := first; i < len(instrs); i++ {
			if fr.isInit {
				if in.initInstr(fr, instrs[i]) {
					return
				}
				continue
			}
			if in.visitInstr(fr, instrs[i]) {
				return
			}
		}
	}
}

func firstPos(b *ssa.BasicBlock) token.Pos {
	for _, i := range b.Instrs {
		if i.Pos() != token.NoPos {
			return i.Pos()
		}
	}
	return token.NoPos
}

func (in *interp) executePhis(fr *frame, b *ssa.BasicBlock, first int) {
	predIndex := -1
	for i, p := range b.Preds {
		if p == fr.prevBlock {
			predIndex = i
			break
		}
	}
	var tmp [8]value
	temps := tmp[:0]
	for _, ins := range b.Instrs[:first] {
		temps = append(temps, fr.get(ins.(*ssa.Phi).Edges[predIndex]))
	}
	for i, ins := range b.Instrs[:first] {
		fr.set(ins.(*ssa.Phi), temps[i])
	}
}

func (in *interp) doRecover(caller *frame) value {
	if caller != nil && !caller.panicking && caller.caller != nil && caller.caller.panicking {
		caller.caller.panicking = false
		p := caller.caller.panic
		caller.caller.panic = nil
		switch p := p.(type) {
		case targetPanic:
			return p.v
		case runtimePanic:
			return in.runtimeErrorValue(p.Error())
		case runtime.Error:
			return in.runtimeErrorValue(p.Error())
		case string:
			return in.runtimeErrorValue(p)
		default:
			panic(fmt.Sprintf("unexpected panic type %T in target call to recover(): %v", p, p))
		}
	}
	return iface{}
}

// runtimeErrorValue builds an error value for a recovered runtime panic.
func (in *interp) runtimeErrorValue(msg string) value {
	if in.errorStringType != nil {
		var cell value = structure{msg}
		return iface{t: in.errorStringType, v: &cell}
	}
	return iface{t: types.Typ[types.String], v: msg}
}

func (in *interp) callBuiltin(caller *frame, fn *ssa.Builtin, args []value) value {
	switch fn.Name() {
	case "append":
		if len(args) == 1 {
			return args[0]
		}
		return in.appendVals(args[0].([]value), bytesArg(args[1]))

	case "copy":
		dst := args[0].([]value)
		var src []value
		switch s := args[1].(type) {
		case string, *SymStr:
			src = strBytes(s)
		case []value:
			src = s
		}
		n := min(len(dst), len(src))
		if n > 0 && len(src) > 0 && len(dst) > 0 {
			// handle overlap like memmove
			tmp := make([]value, n)
			for i := 0; i < n; i++ {
				tmp[i] = copyVal(src[i])
			}
			for i := 0; i < n; i++ {
				in.setCell(&dst[i], tmp[i])
			}
		}
		return n

	case "close":
		in.chanClose(args[0].(*Chan))
		return nil

	case "delete":
		args[0].(*Map).delete(in, args[1])
		return nil

	case "clear":
		switch x := args[0].(type) {
		case *Map:
			x.clear(in)
		case []value:
			for i := range x {
				in.setCell(&x[i], zeroLike(x[i]))
			}
		}
		return nil

	case "print", "println":
		var sb strings.Builder
		for i, arg := range args {
			if i > 0 && fn.Name() == "println" {
				sb.WriteByte(' ')
			}
			sb.WriteString(toString(arg))
		}
		if fn.Name() == "println" {
			sb.WriteByte('\n')
		}
		os.Stderr.WriteString(sb.String())
		return nil

	case "len":
		switch x := args[0].(type) {
		case string:
			return len(x)
		case *SymStr:
			return len(x.B)
		case array:
			return len(x)
		case *value:
			return len((*x).(array))
		case []value:
			return len(x)
		case *Map:
			return x.len()
		case *Chan:
			if x == nil {
				return 0
			}
			return len(x.buf)
		}
		panic(fmt.Sprintf("len: illegal operand: %T", args[0]))

	case "cap":
		switch x := args[0].(type) {
		case array:
			return len(x)
		case *value:
			return len((*x).(array))
		case []value:
			return cap(x)
		case *Chan:
			if x == nil {
				return 0
			}
			return x.cap
		}
		panic(fmt.Sprintf("cap: illegal operand: %T", args[0]))

	case "min", "max":
		x := args[0]
		for _, y := range args[1:] {
			var c value
			if fn.Name() == "min" {
				c = in.binop(token.LSS, nil, y, x)
			} else {
				c = in.binop(token.GTR, nil, y, x)
			}
			switch c := c.(type) {
			case bool:
				if c {
					x = y
				}
			case Sym:
				if _, isStr := x.(string); isStr {
					if in.truth(c) {
						x = y
					}
					continue
				}
				if _, isStr := x.(*SymStr); isStr {
					if in.truth(c) {
						x = y
					}
					continue
				}
				a, k := in.lift(x)
				b, _ := in.lift(y)
				x = in.symInt(in.tt.Ite(c.T, b, a), k)
			}
		}
		return x

	case "real":
		return real(args[0].(complex128))
	case "imag":
		return imag(args[0].(complex128))
	case "complex":
		switch f := args[0].(type) {
		case float64:
			return complex(f, args[1].(float64))
		case float32:
			return complex(float64(f), float64(args[1].(float32)))
		}

	case "panic":
		panic(targetPanic{args[0]})

	case "recover":
		return in.doRecover(caller)

	case "ssa:wrapnilchk":
		recv := args[0]
		if p, ok := recv.(*value); ok && p == nil {
			panic(runtimePanic{fmt.Sprintf("value method %v.%v called using nil pointer", args[1], args[2])})
		}
		return recv

	case "ssa:deferstack":
		return &caller.defers

	case "String": // unsafe.String
		switch p := args[0].(type) {
		case sliceData:
			n := int(in.concreteInt(args[1], "unsafe.String len"))
			return mkString(p.s[:n])
		case *value:
			if p == nil {
				return ""
			}
		}
	case "SliceData":
		return sliceData{args[0].([]value)}
	case "StringData":
		return sliceData{strBytes(args[0])}
	case "Slice":
		if p, ok := args[0].(sliceData); ok {
			n := int(in.concreteInt(args[1], "unsafe.Slice len"))
			return p.s[:n:n]
		}
	}
	who := "?"
	if caller != nil {
		who = caller.fn.String()
	}
	panic(in.unsupported(fmt.Sprintf("built-in %s (args %T) called from %s", fn.Name(), args[0], who)))
}

// appendVals implements append(dst, src...), logging in-place writes.
func (in *interp) appendVals(dst, src []value) []value {
	if len(src) == 0 {
		return dst
	}
	if len(dst)+len(src) <= cap(dst) {
		ext := dst[:len(dst)+len(src)]
		for i := range src {
			in.setCell(&ext[len(dst)+i], copyVal(src[i]))
		}
		return ext
	}
	n := len(dst) + len(src)
	c := max(2*cap(dst), n, 4)
	res := in.newVals(c)[:n]
	copy(res, dst)
	for i := range src {
		res[len(dst)+i] = copyVal(src[i])
	}
	// spare capacity must read as zero values after reslicing
	full := res[:c]
	for i := n; i < c; i++ {
		full[i] = zeroLike(res[0])
	}
	return res
}

// sliceData is the result of unsafe.SliceData / unsafe.StringData.
type sliceData struct{ s []value }

func zeroLike(v value) value {
	switch x := v.(type) {
	case nil:
		return nil
	case bool:
		return false
	case Sym:
		if x.K == types.Bool {
			return false
		}
		return boxInt(x.K, 0)
	case string, *SymStr:
		return ""
	case float64:
		return float64(0)
	case float32:
		return float32(0)
	case complex128:
		return complex128(0)
	case *value:
		return (*value)(nil)
	case symPtr:
		return (*value)(nil)
	case []value:
		return []value(nil)
	case *Map:
		return (*Map)(nil)
	case *Chan:
		return (*Chan)(nil)
	case iface:
		return iface{}
	case structure:
		r := make(structure, len(x))
		for i := range x {
			r[i] = zeroLike(x[i])
		}
		return r
	case array:
		r := make(array, len(x))
		for i := range x {
			r[i] = zeroLike(x[i])
		}
		return r
	case *ssa.Function, *closure:
		return (*ssa.Function)(nil)
	}
	if k, _, ok := unboxInt(v); ok {
		return boxInt(k, 0)
	}
	return nil
}

func (in *interp) rangeIter(x value) iter {
	switch x := x.(type) {
	case *Map:
		it := &mapIter{m: x}
		if in.path != nil && in.path.mapOrderAll && x != nil && x.n >= 2 && x.n <= 3 {
			it.order = in.choosePermutation(x)
		}
		return it
	case string, *SymStr:
		return &stringIter{b: strBytes(x)}
	}
	panic(fmt.Sprintf("cannot range over %T", x))
}

// concreteInt returns a concrete integer, concretising a symbolic one.
func (in *interp) concreteInt(v value, why string) int64 {
	if s, ok := v.(Sym); ok {
		t := s.T
		if t.W < 64 {
			if kindSigned(s.K) {
				t = in.tt.Sext(t, 64)
			} else {
				t = in.tt.Zext(t, 64)
			}
		}
		return int64(in.concretize(t, why))
	}
	return asInt64(v)
}

// allocSize resolves an allocation size; symbolic sizes are reported to the
// allocation monitor (C08) and then concretised.
func (in *interp) allocSize(v value, why string, at ssa.Instruction) int {
	if s, ok := v.(Sym); ok {
		in.monitorAlloc(s, at)
	}
	return int(in.concreteInt(v, why))
}

// rtypeMethod implements the few reflect.Type methods used on type tokens.
func (in *interp) rtypeMethod(name string, args []value) value {
	t := args[0].(rtype).t
	switch name {
	case "Elem":
		switch u := t.Underlying().(type) {
		case *types.Pointer:
			return iface{t: rtypeType, v: rtype{u.Elem()}}
		case *types.Slice:
			return iface{t: rtypeType, v: rtype{u.Elem()}}
		case *types.Array:
			return iface{t: rtypeType, v: rtype{u.Elem()}}
		case *types.Map:
			return iface{t: rtypeType, v: rtype{u.Elem()}}
		case *types.Chan:
			return iface{t: rtypeType, v: rtype{u.Elem()}}
		}
	case "String":
		return t.String()
	case "Name":
		if n, ok := t.(*types.Named); ok {
			return n.Obj().Name()
		}
		return ""
	case "Comparable":
		return types.Comparable(t)
	case "Implements":
		u := args[1].(iface).v.(rtype).t
		if it, ok := u.Underlying().(*types.Interface); ok {
			return in.implements(t, it)
		}
		return false
	case "AssignableTo":
		u := args[1].(iface).v.(rtype).t
		return types.AssignableTo(t, u)
	}
	panic(in.unsupported("reflect type method " + name))
}

// poison stands for a package-level value whose initialiser could not be
// executed; any use of it fails (reported as unsupported), but the rest of
// the package initialises normally.
type poison struct{ why string }

// initInstr executes one instruction of a package initialiser; a failure
// caused by an unsupported initialiser poisons the instruction's value.
func (in *interp) initInstr(fr *frame, instr ssa.Instruction) (ret bool) {
	defer func() {
		if r := recover(); r != nil {
			if a, ok := r.(abortPath); ok && a.kind != abortUnsupported {
				panic(r)
			}
			if _, isTarget := r.(targetPanic); isTarget {
				panic(r)
			}
			if v, ok := instr.(ssa.Value); ok {
				fr.set(v, poison{fmt.Sprint(r)})
			}
			switch instr.(type) {
			case *ssa.If, *ssa.Jump, *ssa.Return:
				panic(r) // control flow cannot be poisoned
			}
		}
	}()
	return in.visitInstr(fr, instr)
}

func (in *interp) initCall(fr *frame, instr *ssa.Call) {
	defer func() {
		if r := recover(); r != nil {
			why := fmt.Sprint(r)
			if a, ok := r.(abortPath); ok {
				if a.kind != abortUnsupported {
					panic(r)
				}
				why = a.msg
			} else if _, isTarget := r.(targetPanic); isTarget {
				panic(r)
			}
			fr.set(instr, poison{why})
		}
	}()
	fn, args := in.prepareCall(fr, &instr.Call)
	fr.set(instr, in.call(fr, instr.Pos(), fn, args))
}
