package main

// compress/zlib as an identity codec (Flate is not go-pdf's code): 2-byte
// header 78 9c, the data unchanged, 4-byte zero trailer.  When every byte is
// concrete the real format is not needed either: reader and writer of one
// run agree with each other, which is all the round-trip properties use.

import (
	"go/types"

	"golang.org/x/tools/go/ssa"
)

type zlibW struct {
	dst       value // io.Writer interface value
	wroteHead bool
	closed    bool
}

type zlibR struct {
	src     value // io.Reader
	raw     []value // bytes received from the source so far
	srcDone bool    // the source reported EOF or an error
	loaded  bool    // Read has fetched the rest of the source
	data    []value
	err     value // sticky source or format error (iface)
	hdrErr  value // error reported by NewReader/Reset
}

func (in *interp) zlibWriterType() types.Type {
	p := in.prog.ImportedPackage("compress/zlib")
	return types.NewPointer(p.Type("Writer").Type())
}

func (in *interp) zlibReaderType() types.Type {
	p := in.prog.ImportedPackage("compress/zlib")
	return types.NewPointer(p.Type("reader").Type())
}

func (in *interp) zw(p value) *zlibW {
	c := cellOf(p)
	if in.zlibWs == nil {
		in.zlibWs = map[*value]*zlibW{}
	}
	w := in.zlibWs[c]
	if w == nil {
		w = &zlibW{}
		in.zlibWs[c] = w
		in.logUndo(func() { delete(in.zlibWs, c) })
	}
	return w
}

func (in *interp) zr(p value) *zlibR {
	c := cellOf(p)
	if in.zlibRs == nil {
		in.zlibRs = map[*value]*zlibR{}
	}
	r := in.zlibRs[c]
	if r == nil {
		r = &zlibR{}
		in.zlibRs[c] = r
		in.logUndo(func() { delete(in.zlibRs, c) })
	}
	return r
}

func (in *interp) ioEOF() value {
	p := in.prog.ImportedPackage("io")
	return *in.global(p.Var("EOF"))
}

func (in *interp) zlibGlobalErr(name string) value {
	p := in.prog.ImportedPackage("compress/zlib")
	return *in.global(p.Var(name))
}

func init() {
	newWriter := func(fr *frame, args []value) (value, bool) {
		in := fr.in
		var cell value = zero(in.zlibWriterType().(*types.Pointer).Elem())
		p := &cell
		w := in.zw(p)
		w.dst = args[0]
		return done(p)
	}
	externals["compress/zlib.NewWriter"] = newWriter
	externals["compress/zlib.NewWriterLevel"] = func(fr *frame, args []value) (value, bool) {
		r, _ := newWriter(fr, args)
		return done(tuple{r, iface{}})
	}
	externals["compress/zlib.NewWriterLevelDict"] = externals["compress/zlib.NewWriterLevel"]
	externals["(*compress/zlib.Writer).Reset"] = func(fr *frame, args []value) (value, bool) {
		w := fr.in.zw(args[0])
		old := *w
		fr.in.logUndo(func() { *w = old })
		w.dst, w.wroteHead, w.closed = args[1], false, false
		return done(nil)
	}
	writeHead := func(fr *frame, w *zlibW) value {
		if w.wroteHead {
			return nil
		}
		old := *w
		fr.in.logUndo(func() { *w = old })
		w.wroteHead = true
		r := fr.in.callWrite(fr, w.dst, []value{uint8(0x78), uint8(0x9c)}).(tuple)
		if e := r[1].(iface); e.t != nil {
			return e
		}
		return nil
	}
	externals["(*compress/zlib.Writer).Write"] = func(fr *frame, args []value) (value, bool) {
		in := fr.in
		w := in.zw(args[0])
		if e := writeHead(fr, w); e != nil {
			return done(tuple{0, e})
		}
		b := args[1].([]value)
		if len(b) == 0 {
			return done(tuple{0, iface{}})
		}
		return done(in.callWrite(fr, w.dst, append([]value(nil), b...)))
	}
	externals["(*compress/zlib.Writer).Flush"] = func(fr *frame, args []value) (value, bool) {
		w := fr.in.zw(args[0])
		if e := writeHead(fr, w); e != nil {
			return done(e)
		}
		return done(iface{})
	}
	externals["(*compress/zlib.Writer).Close"] = func(fr *frame, args []value) (value, bool) {
		in := fr.in
		w := in.zw(args[0])
		if w.closed {
			return done(iface{})
		}
		if e := writeHead(fr, w); e != nil {
			return done(e)
		}
		old := *w
		in.logUndo(func() { *w = old })
		w.closed = true
		r := in.callWrite(fr, w.dst, []value{uint8(0), uint8(0), uint8(0), uint8(0)}).(tuple)
		return done(r[1])
	}

	// The reader mirrors compress/zlib's use of its source: NewReader and
	// Reset read eagerly (one Read of up to 4096 bytes, as bufio does) and
	// check the header; Read fetches the rest.  When the source fails part
	// way, the data received so far is delivered before the error (io.Reader
	// permits that, and the real decompressor does it).
	zlibFill := func(fr *frame, r *zlibR, once bool) {
		in := fr.in
		src := r.src.(iface)
		if src.t == nil {
			panic(runtimePanic{"invalid memory address or nil pointer dereference (nil zlib source)"})
		}
		read := in.findMethod(src.t, "Read")
		for iter := 0; !r.srcDone; iter++ {
			if iter > 1<<16 {
				panic(in.abort(abortUnwind, "zlib model: source does not end"))
			}
			buf := make([]value, 4096)
			for i := range buf {
				buf[i] = uint8(0)
			}
			res := in.call(fr, 0, read, []value{src.v, buf}).(tuple)
			n := int(in.concreteInt(res[0], "zlib read count"))
			r.raw = append(r.raw, buf[:n]...)
			if e := res[1].(iface); e.t != nil {
				r.srcDone = true
				if !in.truth(in.equals(nil, e, in.ioEOF())) {
					r.err = e
				}
			} else if n == 0 && iter > 64 {
				panic(in.abort(abortUnwind, "zlib model: source makes no progress"))
			}
			if once && (n > 0 || r.srcDone) {
				break
			}
		}
	}
	// zlibHeader checks what NewReader/Reset check; returns an error value
	// (iface) or an empty iface.
	zlibHeader := func(fr *frame, r *zlibR) value {
		in := fr.in
		zlibFill(fr, r, true)
		for len(r.raw) < 2 && !r.srcDone {
			zlibFill(fr, r, true)
		}
		if len(r.raw) < 2 {
			if r.err != nil {
				return r.err
			}
			return in.zlibUnexpectedEOF()
		}
		if !in.truth(in.and(in.equals(types.Typ[types.Uint8], r.raw[0], uint8(0x78)), in.equals(types.Typ[types.Uint8], r.raw[1], uint8(0x9c)))) {
			return in.zlibGlobalErr("ErrHeader")
		}
		return iface{}
	}
	externals["compress/zlib.NewReader"] = func(fr *frame, args []value) (value, bool) {
		in := fr.in
		var cell value = zero(in.zlibReaderType().(*types.Pointer).Elem())
		p := &cell
		r := in.zr(p)
		r.src = args[0]
		if e := zlibHeader(fr, r).(iface); e.t != nil {
			r.hdrErr = e
			return done(tuple{iface{}, e})
		}
		return done(tuple{iface{t: in.zlibReaderType(), v: p}, iface{}})
	}
	externals["(*compress/zlib.reader).Reset"] = func(fr *frame, args []value) (value, bool) {
		r := fr.in.zr(args[0])
		old := *r
		fr.in.logUndo(func() { *r = old })
		*r = zlibR{src: args[1]}
		if e := zlibHeader(fr, r).(iface); e.t != nil {
			r.hdrErr = e
			return done(e)
		}
		return done(iface{})
	}
	externals["(*compress/zlib.reader).Close"] = func(fr *frame, args []value) (value, bool) {
		return done(iface{})
	}
	externals["(*compress/zlib.reader).Read"] = func(fr *frame, args []value) (value, bool) {
		in := fr.in
		r := in.zr(args[0])
		p := args[1].([]value)
		if r.hdrErr != nil {
			return done(tuple{0, r.hdrErr})
		}
		if !r.loaded {
			old := *r
			in.logUndo(func() { *r = old })
			r.loaded = true
			zlibFill(fr, r, false)
			all := r.raw
			switch {
			case r.err != nil:
				// the source failed: what arrived is delivered first
				r.data = all[2:]
			case len(all) < 6:
				r.err = in.zlibUnexpectedEOF()
			default:
				r.data = all[2 : len(all)-4]
			}
		}
		if len(r.data) > 0 {
			n := min(len(p), len(r.data))
			for i := 0; i < n; i++ {
				in.setCell(&p[i], r.data[i])
			}
			old := r.data
			in.logUndo(func() { r.data = old })
			r.data = r.data[n:]
			return done(tuple{n, iface{}})
		}
		if r.err != nil {
			return done(tuple{0, r.err})
		}
		return done(tuple{0, in.ioEOF()})
	}
}

func (in *interp) zlibUnexpectedEOF() value {
	p := in.prog.ImportedPackage("io")
	return *in.global(p.Var("ErrUnexpectedEOF"))
}

var _ *ssa.Function
