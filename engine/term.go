package main

// Terms: hash-consed SMT terms over Bool and fixed-width bit-vectors.
//
// Terms are sign-agnostic; the Go operation that creates a term chooses the
// signed or unsigned SMT operator.  Every worker owns one termTable (no
// locking).  Construction folds constants and applies a few cheap
// simplifications (including an unsigned upper-bound analysis that removes
// most trivially infeasible bounds checks without a solver call).

import (
	"fmt"
	"math/bits"
	"strconv"
	"strings"
)

type Op uint8

const (
	OpConst Op = iota
	OpVar
	OpAdd
	OpSub
	OpMul
	OpUDiv
	OpURem
	OpSDiv
	OpSRem
	OpAnd
	OpOr
	OpXor
	OpNot // bvnot
	OpNeg
	OpShl
	OpLShr
	OpAShr
	OpEq
	OpUlt
	OpUle
	OpSlt
	OpSle
	OpBAnd
	OpBOr
	OpBNot
	OpIte
	OpZext
	OpSext
	OpExtract // val = hi<<8 | lo
	OpConcat
	OpUF // uninterpreted function application: name, args
)

var opNames = [...]string{
	OpAdd: "bvadd", OpSub: "bvsub", OpMul: "bvmul", OpUDiv: "bvudiv", OpURem: "bvurem",
	OpSDiv: "bvsdiv", OpSRem: "bvsrem", OpAnd: "bvand", OpOr: "bvor", OpXor: "bvxor",
	OpNot: "bvnot", OpNeg: "bvneg", OpShl: "bvshl", OpLShr: "bvlshr", OpAShr: "bvashr",
	OpEq: "=", OpUlt: "bvult", OpUle: "bvule", OpSlt: "bvslt", OpSle: "bvsle",
	OpBAnd: "and", OpBOr: "or", OpBNot: "not", OpIte: "ite", OpConcat: "concat",
}

// Term is an immutable hash-consed node.  W == 0 means Bool.
type Term struct {
	id   int32
	op   Op
	W    uint8 // bit width; 0 = Bool
	args []*Term
	val  uint64 // constant value (masked) / extract bounds / extension amount
	name string // variable or UF name
	umax uint64 // unsigned upper bound (inclusive) for bit-vector terms
	umin uint64 // unsigned lower bound (inclusive)
	// side constraints that must be asserted whenever this atom is mentioned
	side []*Term
	// for atoms that are defined by a function of other terms (div/rem
	// encodings): evaluation uses def instead of the model
	def *Term
	// quotient atoms: q = divRoot / divBy (cumulative over nested divisions)
	divRoot *Term
	divBy   uint64
}

func (t *Term) IsConst() bool { return t.op == OpConst }
func (t *Term) IsBool() bool  { return t.W == 0 }

type termKey struct {
	op         Op
	w          uint8
	a0, a1, a2 int32
	val        uint64
	name       string
}

type termTable struct {
	tab   map[termKey]*Term
	all   []*Term
	True  *Term
	False *Term
	fresh int
}

func newTermTable() *termTable {
	tt := &termTable{tab: make(map[termKey]*Term, 1<<12)}
	tt.True = tt.mk(OpConst, 0, 1, "", nil)
	tt.False = tt.mk(OpConst, 0, 0, "", nil)
	return tt
}

func mask(w uint8) uint64 {
	if w >= 64 {
		return ^uint64(0)
	}
	return (uint64(1) << w) - 1
}

func (tt *termTable) mk(op Op, w uint8, val uint64, name string, args []*Term) *Term {
	k := termKey{op: op, w: w, val: val, name: name, a0: -1, a1: -1, a2: -1}
	if len(args) > 0 {
		k.a0 = args[0].id
	}
	if len(args) > 1 {
		k.a1 = args[1].id
	}
	if len(args) > 2 {
		k.a2 = args[2].id
	}
	if len(args) > 3 {
		var sb strings.Builder
		sb.WriteString(name)
		for _, a := range args[3:] {
			sb.WriteByte(',')
			sb.WriteString(strconv.Itoa(int(a.id)))
		}
		k.name = sb.String()
	}
	if t, ok := tt.tab[k]; ok {
		return t
	}
	t := &Term{id: int32(len(tt.all)), op: op, W: w, val: val, name: name}
	if len(args) > 0 {
		t.args = append([]*Term(nil), args...)
	}
	t.umax = tt.computeUmax(t)
	t.umin = tt.computeUmin(t)
	tt.tab[k] = t
	tt.all = append(tt.all, t)
	return t
}

func (tt *termTable) computeUmax(t *Term) uint64 {
	if t.W == 0 {
		return 1
	}
	m := mask(t.W)
	switch t.op {
	case OpConst:
		return t.val
	case OpZext:
		return t.args[0].umax
	case OpAnd:
		return min(t.args[0].umax, t.args[1].umax)
	case OpOr, OpXor:
		a, b := t.args[0].umax, t.args[1].umax
		mx := max(a, b)
		if mx == 0 {
			return 0
		}
		n := bits.Len64(mx)
		if n >= 64 {
			return m
		}
		return min(m, (uint64(1)<<n)-1)
	case OpLShr:
		if t.args[1].IsConst() {
			if t.args[1].val >= 64 {
				return 0
			}
			return t.args[0].umax >> t.args[1].val
		}
		return t.args[0].umax
	case OpURem:
		if t.args[1].umax > 0 {
			return min(t.args[0].umax, t.args[1].umax-1)
		}
		return t.args[0].umax
	case OpUDiv:
		if t.args[1].IsConst() && t.args[1].val > 0 {
			return t.args[0].umax / t.args[1].val
		}
		return t.args[0].umax
	case OpAdd:
		a, b := t.args[0].umax, t.args[1].umax
		s, c := bits.Add64(a, b, 0)
		if c == 0 && s <= m {
			return s
		}
		return m
	case OpMul:
		hi, lo := bits.Mul64(t.args[0].umax, t.args[1].umax)
		if hi == 0 && lo <= m {
			return lo
		}
		return m
	case OpShl:
		if t.args[1].IsConst() && t.args[1].val < 64 {
			a := t.args[0].umax
			if a == 0 {
				return 0
			}
			if bits.Len64(a)+int(t.args[1].val) <= int(t.W) {
				return a << t.args[1].val
			}
		}
		return m
	case OpIte:
		return max(t.args[1].umax, t.args[2].umax)
	case OpExtract:
		hi, lo := uint8(t.val>>8), uint8(t.val)
		if lo == 0 {
			return min(mask(hi+1), t.args[0].umax)
		}
		return mask(hi - lo + 1)
	case OpConcat:
		return t.args[0].umax<<t.args[1].W | mask(t.args[1].W)
	}
	return m
}

func (tt *termTable) computeUmin(t *Term) uint64 {
	if t.W == 0 {
		return 0
	}
	switch t.op {
	case OpConst:
		return t.val
	case OpZext:
		return t.args[0].umin
	case OpOr:
		return max(t.args[0].umin, t.args[1].umin)
	case OpAdd:
		// valid only if the addition cannot wrap
		a, b := t.args[0], t.args[1]
		s, c := bits.Add64(a.umax, b.umax, 0)
		if c == 0 && s <= mask(t.W) {
			return a.umin + b.umin
		}
	case OpMul:
		a, b := t.args[0], t.args[1]
		hi, lo := bits.Mul64(a.umax, b.umax)
		if hi == 0 && lo <= mask(t.W) {
			return a.umin * b.umin
		}
	case OpIte:
		return min(t.args[1].umin, t.args[2].umin)
	case OpLShr:
		if t.args[1].IsConst() && t.args[1].val < 64 {
			return t.args[0].umin >> t.args[1].val
		}
	case OpUDiv:
		if t.args[1].IsConst() && t.args[1].val > 0 {
			return t.args[0].umin / t.args[1].val
		}
	}
	return 0
}

// isQuotientMul reports whether m == q*c where q is the quotient atom of x by c
// (then m <= x by q's defining constraint).
func isQuotientMul(m, x *Term) bool {
	if m.op != OpMul || !m.args[1].IsConst() {
		return false
	}
	q := m.args[0]
	return q.op == OpVar && q.def != nil && q.def.op == OpUDiv && q.def.args[0] == x && q.def.args[1].val == m.args[1].val
}

// ---------------------------------------------------------------- builders

func (tt *termTable) Const(w uint8, v uint64) *Term {
	if w == 0 {
		if v != 0 {
			return tt.True
		}
		return tt.False
	}
	return tt.mk(OpConst, w, v&mask(w), "", nil)
}

func (tt *termTable) Bool(b bool) *Term {
	if b {
		return tt.True
	}
	return tt.False
}

func (tt *termTable) Var(name string, w uint8) *Term {
	return tt.mk(OpVar, w, 0, name, nil)
}

func (tt *termTable) Fresh(prefix string, w uint8) *Term {
	tt.fresh++
	return tt.Var(fmt.Sprintf("%s!%d", prefix, tt.fresh), w)
}

func sext64(v uint64, w uint8) int64 {
	if w >= 64 {
		return int64(v)
	}
	sh := 64 - uint(w)
	return int64(v<<sh) >> sh
}

func foldBin(op Op, w uint8, a, b uint64) (uint64, bool) {
	m := mask(w)
	switch op {
	case OpAdd:
		return (a + b) & m, true
	case OpSub:
		return (a - b) & m, true
	case OpMul:
		return (a * b) & m, true
	case OpUDiv:
		if b == 0 {
			return m, true
		}
		return a / b, true
	case OpURem:
		if b == 0 {
			return a, true
		}
		return a % b, true
	case OpSDiv:
		sa, sb := sext64(a, w), sext64(b, w)
		if sb == 0 {
			if sa >= 0 {
				return m, true
			}
			return 1, true
		}
		if sb == -1 {
			return uint64(-sa) & m, true
		}
		return uint64(sa/sb) & m, true
	case OpSRem:
		sa, sb := sext64(a, w), sext64(b, w)
		if sb == 0 {
			return a, true
		}
		if sb == -1 {
			return 0, true
		}
		return uint64(sa%sb) & m, true
	case OpAnd:
		return a & b, true
	case OpOr:
		return a | b, true
	case OpXor:
		return a ^ b, true
	case OpShl:
		if b >= uint64(w) {
			return 0, true
		}
		return (a << b) & m, true
	case OpLShr:
		if b >= uint64(w) {
			return 0, true
		}
		return a >> b, true
	case OpAShr:
		sa := sext64(a, w)
		if b >= uint64(w) {
			if sa < 0 {
				return m, true
			}
			return 0, true
		}
		return uint64(sa>>b) & m, true
	}
	return 0, false
}

func foldCmp(op Op, w uint8, a, b uint64) bool {
	switch op {
	case OpEq:
		return a == b
	case OpUlt:
		return a < b
	case OpUle:
		return a <= b
	case OpSlt:
		return sext64(a, w) < sext64(b, w)
	case OpSle:
		return sext64(a, w) <= sext64(b, w)
	}
	panic("foldCmp")
}

// Bin builds a bit-vector binary operation.
func (tt *termTable) Bin(op Op, a, b *Term) *Term {
	if a.W != b.W {
		panic(fmt.Sprintf("term width mismatch %s: %d vs %d", opNames[op], a.W, b.W))
	}
	w := a.W
	if a.IsConst() && b.IsConst() {
		v, _ := foldBin(op, w, a.val, b.val)
		return tt.Const(w, v)
	}
	switch op {
	case OpAdd:
		if a.IsConst() && a.val == 0 {
			return b
		}
		if b.IsConst() && b.val == 0 {
			return a
		}
		if a.IsConst() { // canonical: constant on the right
			a, b = b, a
		}
		// (x + c1) + c2
		if b.IsConst() && a.op == OpAdd && a.args[1].IsConst() {
			return tt.Bin(OpAdd, a.args[0], tt.Const(w, a.args[1].val+b.val))
		}
		// (x - y) + y == x (PNG "Up" prediction undone by the decoder)
		if a.op == OpSub && a.args[1] == b {
			return a.args[0]
		}
		if b.op == OpSub && b.args[1] == a {
			return b.args[0]
		}
		// Horner recomposition: q*c + r == x for the quotient/remainder atoms
		// of x by the constant c (their defining side constraint)
		if x := hornerRecompose(a, b); x != nil {
			return x
		}
		if x := hornerRecompose(b, a); x != nil {
			return x
		}
	case OpSub:
		if b.IsConst() && b.val == 0 {
			return a
		}
		if a == b {
			return tt.Const(w, 0)
		}
		// (x + y) - y == x
		if a.op == OpAdd {
			if a.args[1] == b {
				return a.args[0]
			}
			if a.args[0] == b {
				return a.args[1]
			}
		}
		if b.IsConst() {
			return tt.Bin(OpAdd, a, tt.Const(w, -b.val))
		}
	case OpMul:
		if a.IsConst() {
			a, b = b, a
		}
		if b.IsConst() {
			if b.val == 0 {
				return b
			}
			if b.val == 1 {
				return a
			}
		}
	case OpAnd:
		if a.IsConst() {
			a, b = b, a
		}
		if b.IsConst() {
			if b.val == 0 {
				return b
			}
			if b.val == mask(w) {
				return a
			}
			// and(x, m) where x already fits below m (m = 2^k-1)
			if b.val&(b.val+1) == 0 && a.umax <= b.val {
				return a
			}
		}
		if a == b {
			return a
		}
	case OpOr:
		if a.IsConst() {
			a, b = b, a
		}
		if b.IsConst() {
			if b.val == 0 {
				return a
			}
			if b.val == mask(w) {
				return b
			}
		}
		if a == b {
			return a
		}
	case OpXor:
		if a.IsConst() {
			a, b = b, a
		}
		if b.IsConst() && b.val == 0 {
			return a
		}
		if a == b {
			return tt.Const(w, 0)
		}
		// (x ^ k) ^ k
		if a.op == OpXor && a.args[1] == b {
			return a.args[0]
		}
		if a.op == OpXor && a.args[0] == b {
			return a.args[1]
		}
	case OpShl, OpLShr, OpAShr:
		if b.IsConst() && b.val == 0 {
			return a
		}
		if a.IsConst() && a.val == 0 {
			return a
		}
		if b.IsConst() && b.val >= uint64(w) && op != OpAShr {
			return tt.Const(w, 0)
		}
		if op == OpLShr && b.IsConst() && b.val < 64 && (a.umax>>b.val) == 0 {
			return tt.Const(w, 0)
		}
	case OpUDiv:
		if b.IsConst() && b.val == 1 {
			return a
		}
		if b.IsConst() && b.val != 0 && a.umax < b.val {
			return tt.Const(w, 0)
		}
		if b.IsConst() && b.val != 0 && b.val&(b.val-1) == 0 {
			return tt.Bin(OpLShr, a, tt.Const(w, uint64(bits.TrailingZeros64(b.val))))
		}
	case OpURem:
		if b.IsConst() && b.val == 1 {
			return tt.Const(w, 0)
		}
		if b.IsConst() && b.val != 0 && a.umax < b.val {
			return a
		}
		if b.IsConst() && b.val != 0 && b.val&(b.val-1) == 0 {
			return tt.Bin(OpAnd, a, tt.Const(w, b.val-1))
		}
	}
	return tt.mk(op, w, 0, "", []*Term{a, b})
}

func (tt *termTable) Un(op Op, a *Term) *Term {
	if a.IsConst() {
		switch op {
		case OpNot:
			return tt.Const(a.W, ^a.val)
		case OpNeg:
			return tt.Const(a.W, -a.val)
		}
	}
	if a.op == op { // double negation
		return a.args[0]
	}
	return tt.mk(op, a.W, 0, "", []*Term{a})
}

// hornerRecompose recognises mul(q, c) + r with q, r = UDivRemConst(x, c).
func hornerRecompose(m, r *Term) *Term {
	if m.op != OpMul || !m.args[1].IsConst() || r.op != OpVar || r.def == nil || r.def.op != OpURem {
		return nil
	}
	q := m.args[0]
	if q.op != OpVar || q.def == nil || q.def.op != OpUDiv {
		return nil
	}
	if q.def.args[0] != r.def.args[0] || q.def.args[1] != r.def.args[1] || q.def.args[1].val != m.args[1].val {
		return nil
	}
	return q.def.args[0]
}

// Cmp builds a comparison (Bool result).
func (tt *termTable) Cmp(op Op, a, b *Term) *Term {
	if a.W != b.W {
		panic(fmt.Sprintf("cmp width mismatch %d vs %d", a.W, b.W))
	}
	if a.IsConst() && b.IsConst() {
		return tt.Bool(foldCmp(op, a.W, a.val, b.val))
	}
	if a.W == 0 {
		if op != OpEq {
			panic("ordered comparison on Bool")
		}
		// bool == bool
		if a.IsConst() {
			a, b = b, a
		}
		if b.IsConst() {
			if b.val != 0 {
				return a
			}
			return tt.Not(a)
		}
		if a == b {
			return tt.True
		}
		return tt.mk(OpEq, 0, 0, "", []*Term{a, b})
	}
	switch op {
	case OpEq:
		if a == b {
			return tt.True
		}
		if a.IsConst() {
			a, b = b, a
		}
		if a.umax < b.umin || b.umax < a.umin {
			return tt.False
		}
		if b.IsConst() {
			if b.val > a.umax {
				return tt.False
			}
			// zext(x) == c  ->  x == c'
			if a.op == OpZext {
				return tt.Cmp(OpEq, a.args[0], tt.Const(a.args[0].W, b.val))
			}
			// ite(c, k1, k2) == k
			if a.op == OpIte && a.args[1].IsConst() && a.args[2].IsConst() {
				e1 := a.args[1].val == b.val
				e2 := a.args[2].val == b.val
				switch {
				case e1 && e2:
					return tt.True
				case e1:
					return a.args[0]
				case e2:
					return tt.Not(a.args[0])
				default:
					return tt.False
				}
			}
			// (x + c1) == c2 -> x == c2-c1
			if a.op == OpAdd && a.args[1].IsConst() {
				return tt.Cmp(OpEq, a.args[0], tt.Const(a.W, b.val-a.args[1].val))
			}
		}
		if a.id > b.id && !b.IsConst() {
			a, b = b, a
		}
	case OpUlt:
		if a == b {
			return tt.False
		}
		if a.umax < b.umin {
			return tt.True
		}
		if a.umin >= b.umax {
			return tt.False
		}
		if isQuotientMul(b, a) { // x < (x/c)*c is impossible
			return tt.False
		}
		if b.IsConst() {
			if b.val == 0 {
				return tt.False
			}
			if a.umax < b.val {
				return tt.True
			}
			if a.op == OpZext {
				if b.val > mask(a.args[0].W) {
					return tt.True
				}
				return tt.Cmp(OpUlt, a.args[0], tt.Const(a.args[0].W, b.val))
			}
		}
		if a.IsConst() {
			if a.val >= b.umax {
				return tt.False
			}
			if b.op == OpZext && a.val <= mask(b.args[0].W) {
				return tt.Cmp(OpUlt, tt.Const(b.args[0].W, a.val), b.args[0])
			}
		}
	case OpUle:
		if a == b {
			return tt.True
		}
		if a.umax <= b.umin {
			return tt.True
		}
		if a.umin > b.umax {
			return tt.False
		}
		if isQuotientMul(a, b) { // (x/c)*c <= x
			return tt.True
		}
		if b.IsConst() {
			if a.umax <= b.val {
				return tt.True
			}
			if a.op == OpZext {
				if b.val >= mask(a.args[0].W) {
					return tt.True
				}
				return tt.Cmp(OpUle, a.args[0], tt.Const(a.args[0].W, b.val))
			}
		}
		if a.IsConst() {
			if a.val == 0 {
				return tt.True
			}
			if a.val > b.umax {
				return tt.False
			}
			if b.op == OpZext && a.val <= mask(b.args[0].W) {
				return tt.Cmp(OpUle, tt.Const(b.args[0].W, a.val), b.args[0])
			}
		}
	case OpSlt, OpSle:
		if a == b {
			return tt.Bool(op == OpSle)
		}
		// if both are known non-negative (as signed), use unsigned compare
		sm := mask(a.W) >> 1
		if a.umax <= sm && b.umax <= sm {
			if op == OpSlt {
				return tt.Cmp(OpUlt, a, b)
			}
			return tt.Cmp(OpUle, a, b)
		}
	}
	return tt.mk(op, 0, 0, "", []*Term{a, b})
}

func (tt *termTable) Not(a *Term) *Term {
	if a.IsConst() {
		return tt.Bool(a.val == 0)
	}
	if a.op == OpBNot {
		return a.args[0]
	}
	return tt.mk(OpBNot, 0, 0, "", []*Term{a})
}

func (tt *termTable) And(a, b *Term) *Term {
	if a.IsConst() {
		if a.val != 0 {
			return b
		}
		return a
	}
	if b.IsConst() {
		if b.val != 0 {
			return a
		}
		return b
	}
	if a == b {
		return a
	}
	if tt.Not(a) == b {
		return tt.False
	}
	return tt.mk(OpBAnd, 0, 0, "", []*Term{a, b})
}

func (tt *termTable) Or(a, b *Term) *Term {
	if a.IsConst() {
		if a.val != 0 {
			return a
		}
		return b
	}
	if b.IsConst() {
		if b.val != 0 {
			return b
		}
		return a
	}
	if a == b {
		return a
	}
	if tt.Not(a) == b {
		return tt.True
	}
	return tt.mk(OpBOr, 0, 0, "", []*Term{a, b})
}

func (tt *termTable) Ite(c, a, b *Term) *Term {
	if c.IsConst() {
		if c.val != 0 {
			return a
		}
		return b
	}
	if a == b {
		return a
	}
	if a.W != b.W {
		panic("ite width mismatch")
	}
	if a.W == 0 {
		// boolean ite -> and/or
		if a.IsConst() && b.IsConst() {
			if a.val != 0 {
				return c
			}
			return tt.Not(c)
		}
		if a.IsConst() {
			if a.val != 0 {
				return tt.Or(c, b)
			}
			return tt.And(tt.Not(c), b)
		}
		if b.IsConst() {
			if b.val != 0 {
				return tt.Or(tt.Not(c), a)
			}
			return tt.And(c, a)
		}
	}
	if c.op == OpBNot {
		return tt.Ite(c.args[0], b, a)
	}
	return tt.mk(OpIte, a.W, 0, "", []*Term{c, a, b})
}

func (tt *termTable) Zext(a *Term, w uint8) *Term {
	if w == a.W {
		return a
	}
	if w < a.W {
		return tt.Extract(a, w-1, 0)
	}
	if a.IsConst() {
		return tt.Const(w, a.val)
	}
	if a.op == OpZext {
		return tt.Zext(a.args[0], w)
	}
	// zext(extract[k-1:0](x)) == x when x already fits in k bits
	if a.op == OpExtract && uint8(a.val) == 0 && a.args[0].W == w && a.args[0].umax <= mask(a.W) {
		return a.args[0]
	}
	return tt.mk(OpZext, w, uint64(w-a.W), "", []*Term{a})
}

func (tt *termTable) Sext(a *Term, w uint8) *Term {
	if w == a.W {
		return a
	}
	if w < a.W {
		return tt.Extract(a, w-1, 0)
	}
	if a.IsConst() {
		return tt.Const(w, uint64(sext64(a.val, a.W)))
	}
	if a.umax <= mask(a.W)>>1 {
		return tt.Zext(a, w)
	}
	return tt.mk(OpSext, w, uint64(w-a.W), "", []*Term{a})
}

func (tt *termTable) Extract(a *Term, hi, lo uint8) *Term {
	if lo == 0 && hi == a.W-1 {
		return a
	}
	w := hi - lo + 1
	if a.IsConst() {
		return tt.Const(w, a.val>>lo)
	}
	if lo == 0 && (a.op == OpZext || a.op == OpSext) {
		in := a.args[0]
		if w == in.W {
			return in
		}
		if w < in.W {
			return tt.Extract(in, hi, 0)
		}
		if a.op == OpZext {
			return tt.Zext(in, w)
		}
		return tt.Sext(in, w)
	}
	if lo == 0 && a.op == OpConcat && a.args[1].W == w {
		return a.args[1]
	}
	// truncation distributes over and/or/xor/add/sub/mul (low bits only)
	if lo == 0 {
		switch a.op {
		case OpAnd, OpOr, OpXor, OpAdd, OpSub, OpMul:
			x, y := a.args[0], a.args[1]
			if (x.op == OpZext || x.op == OpSext || x.IsConst()) && (y.op == OpZext || y.op == OpSext || y.IsConst()) {
				return tt.Bin(a.op, tt.Extract(x, hi, 0), tt.Extract(y, hi, 0))
			}
		}
	}
	return tt.mk(OpExtract, w, uint64(hi)<<8|uint64(lo), "", []*Term{a})
}

func (tt *termTable) Concat(hi, lo *Term) *Term {
	w := hi.W + lo.W
	if hi.IsConst() && lo.IsConst() {
		return tt.Const(w, hi.val<<lo.W|lo.val)
	}
	if hi.IsConst() && hi.val == 0 {
		return tt.Zext(lo, w)
	}
	return tt.mk(OpConcat, w, 0, "", []*Term{hi, lo})
}

// UF builds an application of an uninterpreted function.
func (tt *termTable) UF(name string, w uint8, args ...*Term) *Term {
	return tt.mk(OpUF, w, 0, name, args)
}

// UDivRemConst returns (x / c, x % c) for constant c > 1 using fresh
// quotient/remainder atoms with defining side constraints; bit-blasting
// bvudiv by a constant stalls the solvers (see DESIGN 2.2).
func (tt *termTable) UDivRemConst(x *Term, c uint64) (q, r *Term) {
	w := x.W
	cc := tt.Const(w, c)
	if x.IsConst() {
		return tt.Const(w, x.val/c), tt.Const(w, x.val%c)
	}
	if c&(c-1) == 0 || x.umax < c {
		return tt.Bin(OpUDiv, x, cc), tt.Bin(OpURem, x, cc)
	}
	q = tt.mk(OpVar, w, 0, fmt.Sprintf("q!%d!%d", x.id, c), nil)
	r = tt.mk(OpVar, w, 0, fmt.Sprintf("r!%d!%d", x.id, c), nil)
	if q.def == nil {
		q.def = tt.mk(OpUDiv, w, 0, "", []*Term{x, cc})
		r.def = tt.mk(OpURem, w, 0, "", []*Term{x, cc})
		q.umax = x.umax / c
		r.umax = c - 1
		side := []*Term{
			tt.mk(OpUlt, 0, 0, "", []*Term{r, cc}),
			tt.mk(OpUle, 0, 0, "", []*Term{q, tt.Const(w, mask(w)/c)}),
			tt.mk(OpUle, 0, 0, "", []*Term{tt.mk(OpMul, w, 0, "", []*Term{q, cc}), x}),
			tt.mk(OpEq, 0, 0, "", []*Term{tt.mk(OpSub, w, 0, "", []*Term{x, tt.mk(OpMul, w, 0, "", []*Term{q, cc})}), r}),
		}
		// cumulative division lemma: for nested divisions x = root/c0 the
		// quotient also satisfies q = root/(c0*c); stating it directly spares
		// the solver a chain of multiplications
		q.divRoot, q.divBy = x, c
		if x.op == OpVar && x.divRoot != nil {
			hi, cum := bits.Mul64(x.divBy, c)
			if hi == 0 && cum <= mask(w) {
				root := x.divRoot
				q.divRoot, q.divBy = root, cum
				cumT := tt.Const(w, cum)
				prod := tt.mk(OpMul, w, 0, "", []*Term{q, cumT})
				side = append(side,
					tt.mk(OpUle, 0, 0, "", []*Term{q, tt.Const(w, mask(w)/cum)}),
					tt.mk(OpUle, 0, 0, "", []*Term{prod, root}),
					tt.mk(OpUlt, 0, 0, "", []*Term{tt.mk(OpSub, w, 0, "", []*Term{root, prod}), cumT}))
			}
		}
		q.side = side
		r.side = side
	}
	return q, r
}

// ---------------------------------------------------------------- evaluation

// Model maps atoms (variables, UF applications; by term id, worker-local) to
// values.
type Model struct {
	vals map[int32]uint64
	memo map[int32]uint64
	uf   map[string]uint64
}

func newModel() *Model {
	return &Model{vals: map[int32]uint64{}, memo: map[int32]uint64{}}
}

func (m *Model) Eval(t *Term) uint64 {
	if t.op == OpConst {
		return t.val
	}
	if v, ok := m.memo[t.id]; ok {
		return v
	}
	var v uint64
	switch t.op {
	case OpVar:
		if t.def != nil {
			v = m.Eval(t.def)
		} else {
			v = m.vals[t.id] & mask(max(t.W, 1))
		}
	case OpUF:
		if x, ok := m.vals[t.id]; ok {
			v = x
		} else {
			// functional consistency with other applications
			var sb strings.Builder
			sb.WriteString(t.name)
			for _, a := range t.args {
				fmt.Fprintf(&sb, "|%d", m.Eval(a))
			}
			k := sb.String()
			if m.uf == nil {
				m.uf = map[string]uint64{}
			}
			if x, ok := m.uf[k]; ok {
				v = x
			} else {
				m.uf[k] = 0
			}
		}
	case OpAdd, OpSub, OpMul, OpUDiv, OpURem, OpSDiv, OpSRem, OpAnd, OpOr, OpXor, OpShl, OpLShr, OpAShr:
		v, _ = foldBin(t.op, t.W, m.Eval(t.args[0]), m.Eval(t.args[1]))
	case OpNot:
		v = ^m.Eval(t.args[0]) & mask(t.W)
	case OpNeg:
		v = -m.Eval(t.args[0]) & mask(t.W)
	case OpEq, OpUlt, OpUle, OpSlt, OpSle:
		if foldCmp(t.op, max(t.args[0].W, 1), m.Eval(t.args[0]), m.Eval(t.args[1])) {
			v = 1
		}
	case OpBAnd:
		if m.Eval(t.args[0]) != 0 && m.Eval(t.args[1]) != 0 {
			v = 1
		}
	case OpBOr:
		if m.Eval(t.args[0]) != 0 || m.Eval(t.args[1]) != 0 {
			v = 1
		}
	case OpBNot:
		if m.Eval(t.args[0]) == 0 {
			v = 1
		}
	case OpIte:
		if m.Eval(t.args[0]) != 0 {
			v = m.Eval(t.args[1])
		} else {
			v = m.Eval(t.args[2])
		}
	case OpZext:
		v = m.Eval(t.args[0])
	case OpSext:
		v = uint64(sext64(m.Eval(t.args[0]), t.args[0].W)) & mask(t.W)
	case OpExtract:
		hi, lo := uint8(t.val>>8), uint8(t.val)
		v = (m.Eval(t.args[0]) >> lo) & mask(hi-lo+1)
	case OpConcat:
		v = m.Eval(t.args[0])<<t.args[1].W | m.Eval(t.args[1])
	default:
		panic(fmt.Sprintf("eval: op %d", t.op))
	}
	m.memo[t.id] = v
	return v
}

// ---------------------------------------------------------------- printing

func sortString(w uint8) string {
	if w == 0 {
		return "Bool"
	}
	return fmt.Sprintf("(_ BitVec %d)", w)
}

func constString(w uint8, v uint64) string {
	if w == 0 {
		if v != 0 {
			return "true"
		}
		return "false"
	}
	if w%4 == 0 {
		return fmt.Sprintf("#x%0*x", int(w/4), v)
	}
	return fmt.Sprintf("#b%0*b", int(w), v)
}

func (t *Term) ref() string {
	switch t.op {
	case OpConst:
		return constString(t.W, t.val)
	case OpVar:
		return "|" + t.name + "|"
	}
	return "n" + strconv.Itoa(int(t.id))
}

// body returns the SMT-LIB expression of t in terms of refs of its args.
func (t *Term) body() string {
	var sb strings.Builder
	switch t.op {
	case OpZext:
		fmt.Fprintf(&sb, "((_ zero_extend %d) %s)", t.val, t.args[0].ref())
	case OpSext:
		fmt.Fprintf(&sb, "((_ sign_extend %d) %s)", t.val, t.args[0].ref())
	case OpExtract:
		fmt.Fprintf(&sb, "((_ extract %d %d) %s)", t.val>>8, t.val&0xff, t.args[0].ref())
	case OpUF:
		if len(t.args) == 0 {
			return "|" + t.name + "|"
		}
		sb.WriteString("(|" + t.name + "|")
		for _, a := range t.args {
			sb.WriteByte(' ')
			sb.WriteString(a.ref())
		}
		sb.WriteByte(')')
	default:
		sb.WriteByte('(')
		sb.WriteString(opNames[t.op])
		for _, a := range t.args {
			sb.WriteByte(' ')
			sb.WriteString(a.ref())
		}
		sb.WriteByte(')')
	}
	return sb.String()
}

// String renders a term as a nested expression (for diagnostics only).
func (t *Term) String() string {
	var sb strings.Builder
	var rec func(t *Term, d int)
	rec = func(t *Term, d int) {
		switch t.op {
		case OpConst, OpVar:
			sb.WriteString(t.ref())
			return
		}
		if d > 6 {
			sb.WriteString("…")
			return
		}
		switch t.op {
		case OpZext:
			sb.WriteString("(zext ")
		case OpSext:
			sb.WriteString("(sext ")
		case OpExtract:
			fmt.Fprintf(&sb, "(extract[%d:%d] ", t.val>>8, t.val&0xff)
		case OpUF:
			sb.WriteString("(" + t.name + " ")
		default:
			sb.WriteString("(" + opNames[t.op] + " ")
		}
		for i, a := range t.args {
			if i > 0 {
				sb.WriteByte(' ')
			}
			rec(a, d+1)
		}
		sb.WriteByte(')')
	}
	rec(t, 0)
	return sb.String()
}
