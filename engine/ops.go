package main

// Operators: concrete semantics after x/tools go/ssa/interp, plus the
// symbolic layer (terms for Sym operands, byte-wise terms for SymStr).

import (
	"fmt"
	"go/constant"
	"go/token"
	"go/types"
	"math"
	"unicode/utf8"

	"golang.org/x/tools/go/ssa"
)

// targetPanic is a panic of the interpreted program.
type targetPanic struct{ v value }

func (p targetPanic) String() string { return toString(p.v) }

// runtimePanic is a Go runtime error raised by the interpreter on behalf of
// the program (index out of range, nil dereference, ...).
type runtimePanic struct{ msg string }

func (p runtimePanic) Error() string { return "runtime error: " + p.msg }

func (in *interp) constValue(c *ssa.Const) value {
	if c.Value == nil {
		return zero(c.Type())
	}
	if t, ok := c.Type().Underlying().(*types.Basic); ok {
		switch t.Kind() {
		case types.Bool, types.UntypedBool:
			return constant.BoolVal(c.Value)
		case types.Float32:
			return float32(c.Float64())
		case types.Float64, types.UntypedFloat:
			return c.Float64()
		case types.Complex64, types.Complex128, types.UntypedComplex:
			return c.Complex128()
		case types.String, types.UntypedString:
			if c.Value.Kind() == constant.String {
				return constant.StringVal(c.Value)
			}
			return string(rune(c.Int64()))
		case types.Uint, types.Uint8, types.Uint16, types.Uint32, types.Uint64, types.Uintptr:
			return boxInt(t.Kind(), c.Uint64())
		default:
			if isIntKind(t.Kind()) {
				return boxInt(t.Kind(), uint64(c.Int64()))
			}
		}
	}
	panic(fmt.Sprintf("constValue: %s", c))
}

// lift converts a concrete scalar into a term.
func (in *interp) lift(v value) (*Term, types.BasicKind) {
	switch x := v.(type) {
	case Sym:
		return x.T, x.K
	case bool:
		return in.tt.Bool(x), types.Bool
	}
	if k, u, ok := unboxInt(v); ok {
		return in.tt.Const(kindWidth(k), u), k
	}
	panic(in.unsupported(fmt.Sprintf("cannot lift %T to a term", v)))
}

func (in *interp) symBool(t *Term) value {
	if t.IsConst() {
		return t.val != 0
	}
	return Sym{t, types.Bool}
}

func (in *interp) symInt(t *Term, k types.BasicKind) value {
	if t.IsConst() {
		if kindSigned(k) {
			return boxInt(k, uint64(sext64(t.val, t.W)))
		}
		return boxInt(k, t.val)
	}
	return Sym{t, k}
}

// binop implements arithmetic, logical and comparison operators.
func (in *interp) binop(op token.Token, t types.Type, x, y value) value {
	if op == token.EQL {
		return in.equalsNil(t, x, y)
	}
	if op == token.NEQ {
		return in.not(in.equalsNil(t, x, y))
	}
	// strings
	switch x.(type) {
	case string, *SymStr:
		return in.strBinop(op, x, y)
	}
	// symbolic scalars
	_, xs := x.(Sym)
	_, ys := y.(Sym)
	if xs || ys {
		return in.symBinop(op, x, y)
	}
	// floats
	switch a := x.(type) {
	case float64:
		b := y.(float64)
		switch op {
		case token.ADD:
			return a + b
		case token.SUB:
			return a - b
		case token.MUL:
			return a * b
		case token.QUO:
			return a / b
		case token.LSS:
			return a < b
		case token.LEQ:
			return a <= b
		case token.GTR:
			return a > b
		case token.GEQ:
			return a >= b
		}
	case float32:
		b := y.(float32)
		switch op {
		case token.ADD:
			return a + b
		case token.SUB:
			return a - b
		case token.MUL:
			return a * b
		case token.QUO:
			return a / b
		case token.LSS:
			return a < b
		case token.LEQ:
			return a <= b
		case token.GTR:
			return a > b
		case token.GEQ:
			return a >= b
		}
	case complex128:
		b := y.(complex128)
		switch op {
		case token.ADD:
			return a + b
		case token.SUB:
			return a - b
		case token.MUL:
			return a * b
		case token.QUO:
			return a / b
		}
	case bool:
		// & | on bools do not exist in Go; fallthrough to error
	}
	k, a, ok := unboxInt(x)
	if !ok {
		panic(fmt.Sprintf("invalid binary op: %T %s %T", x, op, y))
	}
	w := kindWidth(k)
	signed := kindSigned(k)
	if op == token.SHL || op == token.SHR {
		ky, b, ok := unboxInt(y)
		if !ok {
			panic(fmt.Sprintf("invalid shift count %T", y))
		}
		if kindSigned(ky) && int64(b) < 0 {
			panic(runtimePanic{"negative shift amount"})
		}
		var r uint64
		if op == token.SHL {
			r, _ = foldBin(OpShl, w, a&mask(w), b)
		} else if signed {
			r, _ = foldBin(OpAShr, w, a&mask(w), b)
		} else {
			r, _ = foldBin(OpLShr, w, a&mask(w), b)
		}
		return in.boxW(k, r)
	}
	_, b, ok := unboxInt(y)
	if !ok {
		panic(fmt.Sprintf("invalid binary op: %T %s %T", x, op, y))
	}
	a &= mask(w)
	b &= mask(w)
	switch op {
	case token.ADD:
		return in.boxW(k, a+b)
	case token.SUB:
		return in.boxW(k, a-b)
	case token.MUL:
		return in.boxW(k, a*b)
	case token.QUO:
		if b == 0 {
			panic(runtimePanic{"integer divide by zero"})
		}
		if signed {
			r, _ := foldBin(OpSDiv, w, a, b)
			return in.boxW(k, r)
		}
		return in.boxW(k, a/b)
	case token.REM:
		if b == 0 {
			panic(runtimePanic{"integer divide by zero"})
		}
		if signed {
			r, _ := foldBin(OpSRem, w, a, b)
			return in.boxW(k, r)
		}
		return in.boxW(k, a%b)
	case token.AND:
		return in.boxW(k, a&b)
	case token.OR:
		return in.boxW(k, a|b)
	case token.XOR:
		return in.boxW(k, a^b)
	case token.AND_NOT:
		return in.boxW(k, a&^b)
	case token.LSS:
		if signed {
			return sext64(a, w) < sext64(b, w)
		}
		return a < b
	case token.LEQ:
		if signed {
			return sext64(a, w) <= sext64(b, w)
		}
		return a <= b
	case token.GTR:
		if signed {
			return sext64(a, w) > sext64(b, w)
		}
		return a > b
	case token.GEQ:
		if signed {
			return sext64(a, w) >= sext64(b, w)
		}
		return a >= b
	}
	panic(fmt.Sprintf("invalid binary op: %T %s %T", x, op, y))
}

// boxW boxes the low bits of u as kind k (sign-extending signed kinds).
func (in *interp) boxW(k types.BasicKind, u uint64) value {
	w := kindWidth(k)
	u &= mask(w)
	if kindSigned(k) {
		return boxInt(k, uint64(sext64(u, w)))
	}
	return boxInt(k, u)
}

func (in *interp) symBinop(op token.Token, x, y value) value {
	tt := in.tt
	a, ka := in.lift(x)
	b, kb := in.lift(y)
	if ka == types.Bool {
		panic(fmt.Sprintf("invalid symbolic bool op %s", op))
	}
	signed := kindSigned(ka)
	w := a.W
	if op == token.SHL || op == token.SHR {
		// shift count: any integer kind; negative count panics
		if kindSigned(kb) {
			neg := tt.Cmp(OpSlt, b, tt.Const(b.W, 0))
			if in.truth(Sym{neg, types.Bool}) {
				panic(runtimePanic{"negative shift amount"})
			}
		}
		// adjust count width to w; counts >= w saturate in SMT semantics
		var c *Term
		switch {
		case b.W == w:
			c = b
		case b.W < w:
			c = tt.Zext(b, w)
		default:
			// wider count: if high bits set the shift saturates
			big := tt.Cmp(OpUle, tt.Const(b.W, uint64(w)), b)
			c = tt.Ite(big, tt.Const(w, uint64(w)), tt.Extract(b, w-1, 0))
		}
		if op == token.SHL {
			return in.symInt(tt.Bin(OpShl, a, c), ka)
		}
		if signed {
			return in.symInt(tt.Bin(OpAShr, a, c), ka)
		}
		return in.symInt(tt.Bin(OpLShr, a, c), ka)
	}
	if a.W != b.W {
		panic(fmt.Sprintf("symBinop width mismatch %s: %d %d", op, a.W, b.W))
	}
	switch op {
	case token.ADD:
		return in.symInt(tt.Bin(OpAdd, a, b), ka)
	case token.SUB:
		return in.symInt(tt.Bin(OpSub, a, b), ka)
	case token.MUL:
		return in.symInt(tt.Bin(OpMul, a, b), ka)
	case token.QUO, token.REM:
		zero := tt.Cmp(OpEq, b, tt.Const(w, 0))
		if in.truth(Sym{zero, types.Bool}) {
			panic(runtimePanic{"integer divide by zero"})
		}
		if !signed {
			if b.IsConst() {
				q, r := tt.UDivRemConst(a, b.val)
				if op == token.QUO {
					return in.symInt(q, ka)
				}
				return in.symInt(r, ka)
			}
			if op == token.QUO {
				return in.symInt(tt.Bin(OpUDiv, a, b), ka)
			}
			return in.symInt(tt.Bin(OpURem, a, b), ka)
		}
		// signed: if the dividend is known non-negative and the divisor a
		// positive constant, use the unsigned encoding
		if b.IsConst() && sext64(b.val, w) > 0 && a.umax <= mask(w)>>1 {
			q, r := tt.UDivRemConst(a, b.val)
			if op == token.QUO {
				return in.symInt(q, ka)
			}
			return in.symInt(r, ka)
		}
		if b.IsConst() && sext64(b.val, w) > 0 {
			// split on the sign of a: a/c = -((-a)/c) for a<0 (truncation)
			neg := tt.Cmp(OpSlt, a, tt.Const(w, 0))
			abs := tt.Ite(neg, tt.Un(OpNeg, a), a)
			abs.umax = max(abs.umax, 0) // keep
			q, r := tt.UDivRemConst(abs, b.val)
			if op == token.QUO {
				return in.symInt(tt.Ite(neg, tt.Un(OpNeg, q), q), ka)
			}
			return in.symInt(tt.Ite(neg, tt.Un(OpNeg, r), r), ka)
		}
		if op == token.QUO {
			return in.symInt(tt.Bin(OpSDiv, a, b), ka)
		}
		return in.symInt(tt.Bin(OpSRem, a, b), ka)
	case token.AND:
		return in.symInt(tt.Bin(OpAnd, a, b), ka)
	case token.OR:
		return in.symInt(tt.Bin(OpOr, a, b), ka)
	case token.XOR:
		return in.symInt(tt.Bin(OpXor, a, b), ka)
	case token.AND_NOT:
		return in.symInt(tt.Bin(OpAnd, a, tt.Un(OpNot, b)), ka)
	case token.LSS:
		if signed {
			return in.symBool(tt.Cmp(OpSlt, a, b))
		}
		return in.symBool(tt.Cmp(OpUlt, a, b))
	case token.LEQ:
		if signed {
			return in.symBool(tt.Cmp(OpSle, a, b))
		}
		return in.symBool(tt.Cmp(OpUle, a, b))
	case token.GTR:
		if signed {
			return in.symBool(tt.Cmp(OpSlt, b, a))
		}
		return in.symBool(tt.Cmp(OpUlt, b, a))
	case token.GEQ:
		if signed {
			return in.symBool(tt.Cmp(OpSle, b, a))
		}
		return in.symBool(tt.Cmp(OpUle, b, a))
	}
	panic(fmt.Sprintf("invalid symbolic binary op %s", op))
}

func (in *interp) strBinop(op token.Token, x, y value) value {
	xs, xok := x.(string)
	ys, yok := y.(string)
	if xok && yok {
		switch op {
		case token.ADD:
			return xs + ys
		case token.LSS:
			return xs < ys
		case token.LEQ:
			return xs <= ys
		case token.GTR:
			return xs > ys
		case token.GEQ:
			return xs >= ys
		}
		panic(fmt.Sprintf("invalid string op %s", op))
	}
	a, b := strBytes(x), strBytes(y)
	switch op {
	case token.ADD:
		return mkString(append(a, b...))
	case token.LSS:
		return in.strLess(a, b, false)
	case token.LEQ:
		return in.strLess(a, b, true)
	case token.GTR:
		return in.strLess(b, a, false)
	case token.GEQ:
		return in.strLess(b, a, true)
	}
	panic(fmt.Sprintf("invalid string op %s", op))
}

// strLess builds the lexicographic comparison a < b (or a <= b).
func (in *interp) strLess(a, b []value, orEq bool) value {
	tt := in.tt
	n := min(len(a), len(b))
	// tail: all compared bytes equal
	var res *Term
	if len(a) < len(b) || (orEq && len(a) == len(b)) {
		res = tt.True
	} else {
		res = tt.False
	}
	for i := n - 1; i >= 0; i-- {
		x, _ := in.lift(a[i])
		y, _ := in.lift(b[i])
		lt := tt.Cmp(OpUlt, x, y)
		eq := tt.Cmp(OpEq, x, y)
		res = tt.Or(lt, tt.And(eq, res))
	}
	return in.symBool(res)
}

func (in *interp) not(v value) value {
	switch x := v.(type) {
	case bool:
		return !x
	case Sym:
		return in.symBool(in.tt.Not(x.T))
	}
	panic(fmt.Sprintf("not: %T", v))
}

func (in *interp) and(a, b value) value {
	if x, ok := a.(bool); ok {
		if !x {
			return false
		}
		return b
	}
	if y, ok := b.(bool); ok {
		if !y {
			return false
		}
		return a
	}
	return in.symBool(in.tt.And(a.(Sym).T, b.(Sym).T))
}

// equalsNil is == for type t, where reference types compare against nil.
func (in *interp) equalsNil(t types.Type, x, y value) value {
	switch t.Underlying().(type) {
	case *types.Map:
		return (x.(*Map) != nil) == (y.(*Map) != nil) && (x.(*Map) == nil || x.(*Map) == y.(*Map))
	case *types.Slice:
		return (x.([]value) != nil) == (y.([]value) != nil)
	case *types.Signature:
		return funcIsNil(x) == funcIsNil(y)
	}
	return in.equals(t, x, y)
}

func funcIsNil(x value) bool {
	switch f := x.(type) {
	case *ssa.Function:
		return f == nil
	case *closure:
		return f == nil
	case *ssa.Builtin:
		return f == nil
	case native:
		return f.v == nil
	}
	panic(fmt.Sprintf("funcIsNil: %T", x))
}

// equals implements == for comparable types; the result is bool or Sym.
func (in *interp) equals(t types.Type, x, y value) value {
	switch x := x.(type) {
	case bool:
		if ys, ok := y.(Sym); ok {
			if x {
				return ys
			}
			return in.not(ys)
		}
		return x == y.(bool)
	case Sym:
		a := x.T
		b, _ := in.lift(y)
		return in.symBool(in.tt.Cmp(OpEq, a, b))
	case string:
		if ys, ok := y.(string); ok {
			return x == ys
		}
		return in.strEq(x, y)
	case *SymStr:
		return in.strEq(x, y)
	case float64:
		return x == y.(float64)
	case float32:
		return x == y.(float32)
	case complex128:
		return x == y.(complex128)
	case *value:
		switch y := y.(type) {
		case *value:
			return x == y
		case symPtr:
			return false
		}
	case symPtr:
		if y, ok := y.(symPtr); ok && len(x.base) > 0 && len(y.base) > 0 && &x.base[0] == &y.base[0] {
			return in.symBool(in.tt.Cmp(OpEq, x.idx, y.idx))
		}
		return false
	case *Chan:
		return x == y.(*Chan)
	case *Map:
		return x == y.(*Map)
	case structure:
		y := y.(structure)
		st := t.Underlying().(*types.Struct)
		var res value = true
		for i := range x {
			f := st.Field(i)
			if f.Name() == "_" {
				continue
			}
			res = in.and(res, in.equals(f.Type(), x[i], y[i]))
			if res == false {
				return false
			}
		}
		return res
	case array:
		y := y.(array)
		et := t.Underlying().(*types.Array).Elem()
		var res value = true
		for i := range x {
			res = in.and(res, in.equals(et, x[i], y[i]))
			if res == false {
				return false
			}
		}
		return res
	case iface:
		y := y.(iface)
		if x.t == nil || y.t == nil {
			return x.t == nil && y.t == nil
		}
		if !types.Identical(x.t, y.t) {
			return false
		}
		if !types.Comparable(x.t) {
			panic(runtimePanic{"comparing uncomparable type " + x.t.String()})
		}
		return in.equals(x.t, x.v, y.v)
	case rtype:
		return types.Identical(x.t, y.(rtype).t)
	case native:
		return x.v == y.(native).v
	case *ssa.Function, *closure:
		return funcIsNil(x) && funcIsNil(y)
	}
	if _, a, ok := unboxInt(x); ok {
		if ys, ok := y.(Sym); ok {
			at, _ := in.lift(x)
			return in.symBool(in.tt.Cmp(OpEq, at, ys.T))
		}
		_, b, ok2 := unboxInt(y)
		if !ok2 {
			panic(fmt.Sprintf("equals: %T vs %T", x, y))
		}
		return a == b
	}
	panic(fmt.Sprintf("comparing uncomparable type %s (%T)", t, x))
}

func (in *interp) strEq(x, y value) value {
	if strLen(x) != strLen(y) {
		return false
	}
	a, b := strBytes(x), strBytes(y)
	res := in.tt.True
	for i := range a {
		p, _ := in.lift(a[i])
		q, _ := in.lift(b[i])
		res = in.tt.And(res, in.tt.Cmp(OpEq, p, q))
		if res == in.tt.False {
			return false
		}
	}
	return in.symBool(res)
}

func (in *interp) unop(instr *ssa.UnOp, x value) value {
	switch instr.Op {
	case token.ARROW:
		return in.chanRecv(x.(*Chan), instr.CommaOk, instr.X.Type().Underlying().(*types.Chan).Elem())
	case token.SUB:
		switch x := x.(type) {
		case float64:
			return -x
		case float32:
			return -x
		case complex128:
			return -x
		case Sym:
			return in.symInt(in.tt.Un(OpNeg, x.T), x.K)
		}
		k, a, _ := unboxInt(x)
		return in.boxW(k, -a)
	case token.MUL:
		return in.load(mustDeref(instr.X.Type()), x)
	case token.NOT:
		return in.not(x)
	case token.XOR:
		if s, ok := x.(Sym); ok {
			return in.symInt(in.tt.Un(OpNot, s.T), s.K)
		}
		k, a, _ := unboxInt(x)
		return in.boxW(k, ^a)
	}
	panic(fmt.Sprintf("invalid unary op %s %T", instr.Op, x))
}

func mustDeref(t types.Type) types.Type {
	if p, ok := t.Underlying().(*types.Pointer); ok {
		return p.Elem()
	}
	panic(fmt.Sprintf("mustDeref: %s", t))
}

// load returns the value of type T stored at addr.
func (in *interp) load(T types.Type, addr value) value {
	switch p := addr.(type) {
	case *value:
		if p == nil {
			panic(runtimePanic{"invalid memory address or nil pointer dereference"})
		}
		if in.sched != nil {
			in.raceCheck(p, false)
		}
		return copyVal(*p)
	case symPtr:
		return in.loadSym(p)
	}
	panic(fmt.Sprintf("load: bad address %T", addr))
}

// copyVal copies aggregates (structs and arrays have value semantics).
func copyVal(v value) value {
	switch x := v.(type) {
	case structure:
		a := make(structure, len(x))
		for i := range x {
			a[i] = copyVal(x[i])
		}
		return a
	case array:
		a := make(array, len(x))
		for i := range x {
			a[i] = copyVal(x[i])
		}
		return a
	}
	return v
}

// store writes v (of type T) to addr, logging old contents for rollback.
func (in *interp) store(addr value, v value) {
	switch p := addr.(type) {
	case *value:
		if p == nil {
			panic(runtimePanic{"invalid memory address or nil pointer dereference"})
		}
		in.storeCell(p, v)
	case symPtr:
		in.storeSym(p, v)
	default:
		panic(fmt.Sprintf("store: bad address %T", addr))
	}
}

func (in *interp) storeCell(p *value, v value) {
	switch rhs := v.(type) {
	case structure:
		lhs, ok := (*p).(structure)
		if !ok || len(lhs) != len(rhs) {
			in.setCell(p, copyVal(rhs))
			return
		}
		for i := range lhs {
			in.storeCell(&lhs[i], rhs[i])
		}
	case array:
		lhs, ok := (*p).(array)
		if !ok || len(lhs) != len(rhs) {
			in.setCell(p, copyVal(rhs))
			return
		}
		for i := range lhs {
			in.storeCell(&lhs[i], rhs[i])
		}
	default:
		in.setCell(p, v)
	}
}

func (in *interp) setCell(p *value, v value) {
	if in.sched != nil {
		in.raceCheck(p, true)
	}
	if in.logging && !in.ar.fresh(p) {
		in.undo = append(in.undo, undoEntry{p: p, old: *p})
	}
	*p = v
}

// loadSym reads base[idx] for a symbolic index: an ite chain over the
// elements, grouped by equal concrete values.
func (in *interp) loadSym(p symPtr) value {
	n := len(p.base)
	if n == 0 {
		panic(runtimePanic{"index out of range"})
	}
	// all elements must be scalars; count runs of identical elements
	scalar := true
	runs := 0
	var prev value
	for i, e := range p.base {
		switch e.(type) {
		case Sym, bool:
		default:
			if _, _, ok := unboxInt(e); !ok {
				scalar = false
			}
		}
		if !scalar {
			break
		}
		if i == 0 || e != prev {
			runs++
			prev = e
		}
	}
	if !scalar || runs > in.maxIteTable {
		i := in.concretize(p.idx, "index")
		return copyVal(p.base[i])
	}
	tt := in.tt
	// group consecutive equal elements into ranges
	_, k := in.lift(p.base[0])
	type rng struct {
		lo, hi int
		t      *Term
	}
	var rs []rng
	for i := 0; i < n; i++ {
		t, _ := in.lift(p.base[i])
		if len(rs) > 0 && rs[len(rs)-1].t == t {
			rs[len(rs)-1].hi = i
		} else {
			rs = append(rs, rng{i, i, t})
		}
	}
	// merge by value: value -> condition (union of ranges)
	type grp struct {
		t    *Term
		cond *Term
		cnt  int
	}
	var groups []*grp
	byT := map[*Term]*grp{}
	for _, r := range rs {
		var c *Term
		if r.lo == r.hi {
			c = tt.Cmp(OpEq, p.idx, tt.Const(64, uint64(r.lo)))
		} else {
			c = tt.And(tt.Cmp(OpUle, tt.Const(64, uint64(r.lo)), p.idx), tt.Cmp(OpUle, p.idx, tt.Const(64, uint64(r.hi))))
		}
		g := byT[r.t]
		if g == nil {
			g = &grp{t: r.t, cond: c}
			byT[r.t] = g
			groups = append(groups, g)
		} else {
			g.cond = tt.Or(g.cond, c)
		}
		g.cnt += r.hi - r.lo + 1
	}
	// the largest group becomes the default
	best := 0
	for i, g := range groups {
		if g.cnt > groups[best].cnt {
			best = i
		}
	}
	res := groups[best].t
	for i, g := range groups {
		if i == best {
			continue
		}
		res = tt.Ite(g.cond, g.t, res)
	}
	if k == types.Bool {
		return in.symBool(res)
	}
	return in.symInt(res, k)
}

func (in *interp) storeSym(p symPtr, v value) {
	n := len(p.base)
	scalar := true
	switch v.(type) {
	case Sym, bool:
	default:
		if _, _, ok := unboxInt(v); !ok {
			scalar = false
		}
	}
	if !scalar || n > in.maxIteStore {
		i := in.concretize(p.idx, "index")
		in.storeCell(&p.base[i], v)
		return
	}
	tt := in.tt
	nv, k := in.lift(v)
	for i := 0; i < n; i++ {
		old, _ := in.lift(p.base[i])
		c := tt.Cmp(OpEq, p.idx, tt.Const(64, uint64(i)))
		r := tt.Ite(c, nv, old)
		if k == types.Bool {
			in.setCell(&p.base[i], in.symBool(r))
		} else {
			in.setCell(&p.base[i], in.symInt(r, k))
		}
	}
}

// conv implements ssa.Convert.
func (in *interp) conv(tDst, tSrc types.Type, x value) value {
	utSrc := tSrc.Underlying()
	utDst := tDst.Underlying()

	switch utSrc := utSrc.(type) {
	case *types.Pointer:
		if b, ok := utDst.(*types.Basic); ok && b.Kind() == types.UnsafePointer {
			return x
		}
	case *types.Slice:
		// []byte or []rune -> string
		switch utSrc.Elem().Underlying().(*types.Basic).Kind() {
		case types.Byte:
			return mkString(x.([]value))
		case types.Rune:
			xs := x.([]value)
			r := make([]rune, 0, len(xs))
			for i := range xs {
				c, ok := xs[i].(int32)
				if !ok {
					c = int32(in.concretize(xs[i].(Sym).T, "rune"))
				}
				r = append(r, c)
			}
			return string(r)
		}
	case *types.Basic:
		if utSrc.Kind() == types.UnsafePointer {
			return x
		}
		// string source
		if utSrc.Info()&types.IsString != 0 {
			switch d := utDst.(type) {
			case *types.Slice:
				switch d.Elem().Underlying().(*types.Basic).Kind() {
				case types.Byte:
					b := strBytes(x)
					if b == nil {
						b = []value{}
					}
					return b
				case types.Rune:
					s, ok := x.(string)
					if !ok {
						panic(in.unsupported("[]rune(symbolic string)"))
					}
					res := []value{}
					for _, r := range s {
						res = append(res, r)
					}
					return res
				}
			case *types.Basic:
				if d.Info()&types.IsString != 0 {
					return x
				}
			}
			break
		}
		d, ok := utDst.(*types.Basic)
		if !ok {
			break
		}
		// integer -> string
		if utSrc.Info()&types.IsInteger != 0 && d.Info()&types.IsString != 0 {
			if s, ok := x.(Sym); ok {
				// string(rune) of a symbolic rune: ASCII only without forking
				if s.T.umax < 0x80 {
					return &SymStr{B: []value{Sym{in.tt.Extract(s.T, 7, 0), types.Uint8}}}
				}
				x = boxInt(s.K, in.concretize(s.T, "rune-to-string"))
			}
			_, u, _ := unboxInt(x)
			r := rune(int64(u))
			if int64(u) < 0 || int64(u) > utf8.MaxRune {
				r = utf8.RuneError
			}
			return string(r)
		}
		// numeric conversions
		if utSrc.Info()&types.IsNumeric != 0 && d.Info()&types.IsNumeric != 0 {
			return in.convNumeric(d.Kind(), x)
		}
		if utSrc.Info()&types.IsBoolean != 0 && d.Info()&types.IsBoolean != 0 {
			return x
		}
	}
	panic(fmt.Sprintf("unsupported conversion: %s  -> %s, dynamic type %T", tSrc, tDst, x))
}

func (in *interp) convNumeric(dk types.BasicKind, x value) value {
	switch v := x.(type) {
	case Sym:
		if !isIntKind(dk) {
			panic(in.unsupported("conversion of a symbolic integer to floating point"))
		}
		dw := kindWidth(dk)
		var t *Term
		switch {
		case dw == v.T.W:
			t = v.T
		case dw < v.T.W:
			t = in.tt.Extract(v.T, dw-1, 0)
		case kindSigned(v.K):
			t = in.tt.Sext(v.T, dw)
		default:
			t = in.tt.Zext(v.T, dw)
		}
		return in.symInt(t, dk)
	case float64:
		return floatTo(dk, v)
	case float32:
		return floatTo(dk, float64(v))
	case complex128:
		return v
	}
	k, u, ok := unboxInt(x)
	if !ok {
		panic(fmt.Sprintf("convNumeric: %T", x))
	}
	switch dk {
	case types.Float32:
		if kindSigned(k) {
			return float32(int64(u))
		}
		return float32(u)
	case types.Float64:
		if kindSigned(k) {
			return float64(int64(u))
		}
		return float64(u)
	case types.Complex128, types.Complex64:
		return complex(float64(int64(u)), 0)
	}
	// u is already sign/zero extended to 64 bits; truncate to dst
	return in.boxW(dk, u)
}

func floatTo(dk types.BasicKind, f float64) value {
	switch dk {
	case types.Float32:
		return float32(f)
	case types.Float64:
		return f
	case types.Int:
		return int(f)
	case types.Int8:
		return int8(f)
	case types.Int16:
		return int16(f)
	case types.Int32:
		return int32(f)
	case types.Int64:
		return int64(f)
	case types.Uint:
		return uint(f)
	case types.Uint8:
		return uint8(f)
	case types.Uint16:
		return uint16(f)
	case types.Uint32:
		return uint32(f)
	case types.Uint64:
		return uint64(f)
	case types.Uintptr:
		return uintptr(f)
	case types.Complex128, types.Complex64:
		return complex(f, 0)
	}
	panic("floatTo")
}

// slice implements x[lo:hi:max].
func (in *interp) slice(x, lo, hi, max value) value {
	var Len, Cap int
	switch x := x.(type) {
	case string:
		Len = len(x)
		Cap = Len
	case *SymStr:
		Len = len(x.B)
		Cap = Len
	case []value:
		Len = len(x)
		Cap = cap(x)
	case *value:
		if x == nil {
			panic(runtimePanic{"invalid memory address or nil pointer dereference"})
		}
		a := (*x).(array)
		Len = len(a)
		Cap = len(a)
	}
	get := func(v value, def int, what string) int {
		if v == nil {
			return def
		}
		if s, ok := v.(Sym); ok {
			t := s.T
			if t.W < 64 {
				if kindSigned(s.K) {
					t = in.tt.Sext(t, 64)
				} else {
					t = in.tt.Zext(t, 64)
				}
			}
			// out of range is a panic path; in range values are enumerated
			oob := in.tt.Cmp(OpUlt, in.tt.Const(64, uint64(Cap)), t)
			if in.truth(Sym{oob, types.Bool}) {
				panic(runtimePanic{"slice bounds out of range"})
			}
			return int(in.concretize(t, "slice-"+what))
		}
		return int(asInt64(v))
	}
	l := get(lo, 0, "lo")
	h := get(hi, Len, "hi")
	m := get(max, Cap, "max")
	if l < 0 || h < l || m < h || m > Cap {
		panic(runtimePanic{fmt.Sprintf("slice bounds out of range [%d:%d:%d] with capacity %d", l, h, m, Cap)})
	}
	switch x := x.(type) {
	case string:
		return x[l:h]
	case *SymStr:
		return mkString(x.B[l:h])
	case []value:
		if x == nil && l == 0 && h == 0 {
			return []value(nil)
		}
		return x[l:h:m]
	case *value:
		a := (*x).(array)
		return []value(a)[l:h:m]
	}
	panic(fmt.Sprintf("slice: unexpected X type: %T", x))
}

func (in *interp) typeAssert(instr *ssa.TypeAssert, itf iface) value {
	var v value
	err := ""
	if itf.t == nil {
		err = fmt.Sprintf("interface conversion: interface is nil, not %s", instr.AssertedType)
	} else if idst, ok := instr.AssertedType.Underlying().(*types.Interface); ok {
		v = itf
		if !in.implements(itf.t, idst) {
			err = fmt.Sprintf("interface conversion: %v is not %v", itf.t, instr.AssertedType)
		}
	} else if in.identical(itf.t, instr.AssertedType) {
		v = itf.v
	} else {
		err = fmt.Sprintf("interface conversion: interface is %s, not %s", itf.t, instr.AssertedType)
	}
	if err != "" {
		if !instr.CommaOk {
			panic(runtimePanic{err})
		}
		return tuple{zero(instr.AssertedType), false}
	}
	if instr.CommaOk {
		return tuple{v, true}
	}
	return v
}

type typePair struct{ a, b types.Type }

func (in *interp) identical(a, b types.Type) bool {
	if a == b {
		return true
	}
	k := typePair{a, b}
	if r, ok := in.identCache[k]; ok {
		return r
	}
	r := types.Identical(a, b)
	in.identCache[k] = r
	return r
}

func (in *interp) implements(t types.Type, i *types.Interface) bool {
	k := typePair{t, i}
	if r, ok := in.implCache[k]; ok {
		return r
	}
	m, _ := types.MissingMethod(t, i, true)
	r := m == nil
	in.implCache[k] = r
	return r
}

var _ = math.Inf
