#!/bin/bash
# seed_run.sh <patch.diff> <tier> <ID>...  -- apply a seeded change to /repo,
# run the named checks, undo the change.  Prints one line per check.
set -u
patch=$1; tier=$2; shift 2
cd /verif
export GOSYM_EVIDENCE_DIR=/tmp/seed_evidence  # keep /verif/evidence for the unchanged tree
if [ -n "$(git -C /repo status --porcelain)" ]; then echo "/repo not clean"; exit 2; fi
git -C /repo apply "$patch" || exit 2
trap 'git -C /repo checkout -q -- .; git -C /repo clean -fdq' EXIT
for id in "$@"; do
  t0=$(date +%s)
  ./check "$id" "$tier" > /tmp/seedrun_$id.log 2>&1
  rc=$?
  echo "$id rc=$rc $(($(date +%s)-t0))s $(grep -m1 '^VIOLATION' /tmp/seedrun_$id.log) $(grep -c 'reduced-bound' /tmp/seedrun_$id.log) reduced"
done
