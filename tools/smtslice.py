#!/usr/bin/env python3
"""smtslice.py transcript.smt2 k out.smt2 — standalone query for the k-th check-sat of an incremental transcript."""
import sys
lines=open(sys.argv[1]).read().split('\n'); k=int(sys.argv[2])
decls=[]; stack=[[]]; n=0
for l in lines:
    if l.startswith('(declare') or l.startswith('(define'): decls.append(l)
    elif l.startswith('(push'): stack.append([])
    elif l.startswith('(pop'): stack.pop()
    elif l.startswith('(assert'): stack[-1].append(l)
    elif l.startswith('(check-sat'):
        n+=1
        if n==k:
            with open(sys.argv[3],'w') as f:
                f.write('\n'.join(decls)+'\n')
                for s in stack: f.write('\n'.join(s)+('\n' if s else ''))
                f.write('(check-sat)\n')
            print('written', sum(len(s) for s in stack), 'assertions'); break
else: print('only',n,'queries')
