#!/bin/bash
# seed_confirm.sh <id> <worktree> <outdir> <pkg-rel-dir> <demo-test-file> <run-regexp>
# Confirms a seeded change in a scratch worktree:
#   1. clean worktree + patch applies, builds, existing suite passes
#   2. demonstration fails with the change
#   3. demonstration passes without it
# Writes <outdir>/confirm.log; exit 0 only if all three hold.
set -u
id=$1; wt=$2; out=$3; rel=$4; demo=$5; run=$6
export GOFLAGS=-mod=mod GOPROXY=off
unset GOSUMDB GOTOOLCHAIN
log=$out/confirm.log
: > "$log"
cd "$wt" || exit 2
git checkout -q -- . && git clean -fdq
git apply "$out/patch.diff" || { echo "patch does not apply" >>"$log"; exit 1; }
pkgs=$(go list -e ./... 2>/dev/null | grep -v viewer-tests)
if ! go build $pkgs >>"$log" 2>&1; then echo "RESULT build-fails" >>"$log"; exit 1; fi
if ! go test -vet=off -count=1 -timeout 25m $pkgs >"$out/suite.log" 2>&1; then
  grep -v '^ok\|no test files' "$out/suite.log" | head -40 >>"$log"
  echo "RESULT suite-fails-with-change" >>"$log"; exit 1
fi
echo "suite passes with change ($(grep -c '^ok' "$out/suite.log") packages ok)" >>"$log"
cp "$out/$demo" "$wt/$rel/$demo"
if (cd "$wt/$rel" && go test -vet=off -count=1 -run "$run" . ) >"$out/demo_with.log" 2>&1; then
  echo "RESULT demo-passes-with-change" >>"$log"; exit 1
fi
echo "demo fails with change" >>"$log"
git apply -R "$out/patch.diff" || exit 2
if ! (cd "$wt/$rel" && go test -vet=off -count=1 -run "$run" . ) >"$out/demo_without.log" 2>&1; then
  echo "RESULT demo-fails-without-change" >>"$log"; exit 1
fi
echo "demo passes without change" >>"$log"
echo "RESULT confirmed" >>"$log"
exit 0
