#!/usr/bin/env python3
"""Regenerates /verif/MANIFEST.json from the table below."""
import json, os

ENGINE = "gosym"
COMMON_NOTE = "Bounds are those stated per harness in /verif/harness (input sizes, Unwind caps, case splits); nothing is claimed outside them. Trusted: go/ssa lowering (x/tools v0.50.0), the engine's instruction semantics and stdlib models (DESIGN.md 2.3), z3 5.1.0 (cvc5 1.0 fallback). Every counterexample is replayed natively (go test -overlay) before it is reported; up to 32 explored paths per run are cross-validated against the native build."
TECH = "bounded symbolic execution of the real go/ssa code + SMT (z3/cvc5)"
claimed = {
 "C01": dict(text="Format, doFormat, formatName/String/Dict and the scanner (ReadObject, ReadName, ReadString, ReadHexString, ReadNumber, ReadArray, ReadDict) are executed symbolically: every name and string of <=3 (thorough 4) arbitrary bytes, every int64 (decimal digits modelled by a division chain that the real strconv.ParseInt re-parses), every reference, a boundary list of reals, and every ordered pair of token kinds (thorough: nested composites) inside arrays and dictionaries, plain and pretty; the solver decides parse(format(x)) == x, full consumption and determinism on every path."),
 "C02": dict(text="Whole-program harness on the real Writer and Reader: solver-chosen write programs (Put / Alloc-only / WriteCompressed / OpenStream with 8 filter chains, 10 body shapes incl. endstream/EOL edges and the 1024-byte buffering threshold, Put while a stream is open) x versions x HumanReadable x seekable/non-seekable sink with symbolic payload bytes; NewReader/Get/DecodeStream must return equal objects, byte-identical stream data, null for unwritten references and the same version/ID/Info/Catalog. Second harness: Put never modifies the caller's strings, with and without encryption for every version (found the RC4 in-place defect, fixed)."),
 "C06": dict(text="decode(encode(x)) == x decided for all inputs within the bounds for ASCII85 (<=5/9 bytes, all write splits, line widths, read buffer and source chunk sizes; found the lost-tail defect, fixed), ASCIIHex, RunLength (plus 127..257-byte runs with symbolic content), PNG/TIFF predictors (all predictors, 5 bit depths, 1-3 colours, whole rows of symbolic bytes), LZW and predictor 15 (inputs case-split over a 3-letter alphabet; width changes with long concrete inputs), and Info -> MakeFilter parameter survival for Flate/LZW/Compress/CCITTFax with fully symbolic integer fields."),
 "C07": dict(text="Differential harnesses with both sides executed symbolically: ASCII85 vs encoding/ascii85, LZW vs x/image/tiff/lzw (EarlyChange=1) and compress/lzw (EarlyChange=0), RunLength/ASCIIHex/PNG/TIFF predictors vs reference codecs written from the specifications in the harness; both directions."),
 "C08": dict(text="Decoders run on arbitrary symbolic bodies (ASCII85, ASCIIHex, RunLength, LZW, predictors): no panic, termination within the stated read count, output bounds, agreement with reference decoders on well-formed input; predict.Params.Validate accepts no parameter set (any int magnitudes) with row sizes outside the cap; MakeFilter total on every filter name and parameter dictionary of any value type/magnitude and its results re-validate; GetFilters enforces chain cap and Crypt position."),
 "C12": dict(text="NewCodec/newTree/linearize/Decode/AppendCode/CodeSpaceRange executed symbolically with range bounds and probe bytes as SMT variables; valid iff in a range, consumed as ISO 32000-2 9.7.6.3 prescribes, decode/encode identities and equality of the reported range set are decided by the solver (<=2 ranges of <=2 bytes fully symbolic, thorough 3 ranges; 7 named sets incl. UTF-8 and mixed 1-4 byte sets with 4 symbolic probe bytes). Found the descriptor-deduplication defect (fixed)."),
}
for k in claimed:
    claimed[k].setdefault("note", COMMON_NOTE)
    claimed[k].setdefault("technique", TECH)
not_yet = {}
ids = ["C%02d" % i for i in range(1, 21)]
checks = []
for i in ids:
    if i in claimed:
        c = claimed[i]
        checks.append({
            "property_id": i,
            "quick_cmd": "./check %s quick" % i,
            "thorough_cmd": "./check %s thorough" % i,
            "evidence_file": "/verif/evidence/%s.json" % i,
            "replay_cmd_template": "./check %s --replay {path}" % i,
            "engine": ENGINE,
            "level_claimed": {"category": "model_checking", "text": c["text"], "design_ref": "DESIGN.md section 5 (%s)" % i},
            "level_note": c["note"],
            "technique": c["technique"],
        })
na = [{"property_id": i, "reason": not_yet.get(i, "check not built yet in this session (planned, see DESIGN.md section 5)")} for i in ids if i not in claimed]
m = {
 "version": 1,
 "setup_cmd": "cd /verif/engine && GOFLAGS=-mod=mod GOPROXY=off GOTOOLCHAIN=local go1.26.8 build -o /verif/bin/gosym .",
 "hooks": {"guard": "verif", "enable": "go build -tags verif with a build overlay that injects /verif/harness/<pkg>/zz_verif_*.go and the overlay-only package internal/verifrt; no hook code is committed in /repo", "baseline_off_cmd": "cd /repo && go test -vet=off -count=1 -timeout 25m ./...", "source_commits": [], "add_only": True},
 "engines": [{"name": ENGINE, "path": "/verif/engine", "serves_properties": sorted(claimed), "kind_free_text": "symbolic executor for go/ssa (x/tools v0.50.0) with SMT back end (z3 over a pipe), path exploration by re-execution with decision prefixes, native replay through go test -overlay"}],
 "checks": checks,
 "not_applicable": na,
 "notes": "All checks: ./check <ID> <quick|thorough>; evidence in /verif/evidence/<ID>.json; known findings in /verif/known_findings.json.",
}
json.dump(m, open(os.path.join(os.path.dirname(__file__), "..", "MANIFEST.json"), "w"), indent=1)
print("claimed:", sorted(claimed))
