#!/usr/bin/env python3
"""Regenerates /verif/MANIFEST.json from the table below."""
import json, os

ENGINE = "gosym"
claimed = {
 "C12": dict(
   text="Bounded symbolic model checking of the real charcode code: NewCodec/newTree/linearize/Decode/AppendCode/CodeSpaceRange are executed symbolically from go/ssa with range bounds and probe bytes as SMT variables; every feasible path's assertions (valid iff in a range, consumed as ISO 32000-2 9.7.6.3 prescribes, decode/encode identities, reported ranges admit the same codes) are decided by z3 for all byte values within the bounds (<=2 ranges of <=2 bytes fully symbolic; 7 named sets incl. UTF-8 and mixed 1-4 byte sets with 4 symbolic probe bytes).",
   note="Bounds: see harness/font/charcode; stdlib models (maps/slices/sort interpreted from source); go/ssa lowering; z3 4.8.12. Counterexamples are replayed natively before being reported.",
   technique="bounded symbolic execution of go/ssa + SMT (z3), spec-model differential"),
}
not_yet = {}
ids = ["C%02d" % i for i in range(1, 21)]
checks = []
for i in ids:
    if i in claimed:
        c = claimed[i]
        checks.append({
            "property_id": i,
            "quick_cmd": "./check %s quick" % i,
            "thorough_cmd": "./check %s thorough" % i,
            "evidence_file": "/verif/evidence/%s.json" % i,
            "replay_cmd_template": "./check %s --replay {path}" % i,
            "engine": ENGINE,
            "level_claimed": {"category": "model_checking", "text": c["text"], "design_ref": "DESIGN.md section 5 (%s)" % i},
            "level_note": c["note"],
            "technique": c["technique"],
        })
na = [{"property_id": i, "reason": not_yet.get(i, "check not built yet in this session (planned, see DESIGN.md section 5)")} for i in ids if i not in claimed]
m = {
 "version": 1,
 "setup_cmd": "cd /verif/engine && GOFLAGS=-mod=mod GOPROXY=off GOTOOLCHAIN=local go1.26.8 build -o /verif/bin/gosym .",
 "hooks": {"guard": "verif", "enable": "go build -tags verif with a build overlay that injects /verif/harness/<pkg>/zz_verif_*.go and the overlay-only package internal/verifrt; no hook code is committed in /repo", "baseline_off_cmd": "cd /repo && go test -vet=off -count=1 -timeout 25m ./...", "source_commits": [], "add_only": True},
 "engines": [{"name": ENGINE, "path": "/verif/engine", "serves_properties": sorted(claimed), "kind_free_text": "symbolic executor for go/ssa (x/tools v0.50.0) with SMT back end (z3 over a pipe), path exploration by re-execution with decision prefixes, native replay through go test -overlay"}],
 "checks": checks,
 "not_applicable": na,
 "notes": "All checks: ./check <ID> <quick|thorough>; evidence in /verif/evidence/<ID>.json; known findings in /verif/known_findings.json.",
}
json.dump(m, open(os.path.join(os.path.dirname(__file__), "..", "MANIFEST.json"), "w"), indent=1)
print("claimed:", sorted(claimed))
