#!/bin/bash
# seed_matrix.sh [tier] [name...]: run, for every seeded change under /verif/seeded
# (or the named ones), the check of its property (and the checks named in
# meta.json "also_run") against a scratch worktree of /repo with the change
# applied.  /repo itself is not touched; evidence goes to /tmp/seed_evidence.
tier=${1:-quick}; shift
cd /verif
export GOSYM_EVIDENCE_DIR=/tmp/seed_evidence  # keep /verif/evidence for the unchanged tree
wt=/tmp/seedrepo
[ -d $wt ] || git -C /repo worktree add --detach $wt HEAD >/dev/null 2>&1
git -C $wt checkout -q --detach $(git -C /repo rev-parse HEAD)
./check C14 quick >/dev/null 2>&1   # makes sure the engine binary is current
names="$@"; [ -z "$names" ] && names=$(ls seeded | grep -v RESULTS)
for n in $names; do
  id=${n%%-*}
  extra=$(python3 -c "import json;print(' '.join(json.load(open('seeded/$n/meta.json')).get('also_run',[])))" 2>/dev/null)
  git -C $wt checkout -q -- . ; git -C $wt clean -fdq
  git -C $wt apply /verif/seeded/$n/patch.diff || { echo "$n patch-does-not-apply"; continue; }
  for c in $id $extra; do
    t0=$(date +%s); bin/gosym check -repo $wt -id $c -tier $tier > /tmp/seedmx_${n}_$c.log 2>&1; rc=$?
    echo -e "$n\t$c\t$tier\trc=$rc\t$(($(date +%s)-t0))s\t$(grep -m1 '^VIOLATION' /tmp/seedmx_${n}_$c.log | sed 's/.*replay=.*\///')"
  done
done
git -C $wt checkout -q -- . ; git -C $wt clean -fdq
