#!/bin/bash
# seed_matrix.sh [tier] [name...]: run, for every seeded change under /verif/seeded
# (or the named ones), the check of its property against /repo with the change
# applied; undo the change.  Writes /verif/seeded/RESULTS.tsv.
tier=${1:-quick}; shift
cd /verif
names="$@"; [ -z "$names" ] && names=$(ls seeded | grep -v RESULTS)
for n in $names; do
  id=${n%%-*}
  extra=$(python3 -c "import json;print(' '.join(json.load(open('seeded/$n/meta.json')).get('also_run',[])))" 2>/dev/null)
  if [ -n "$(git -C /repo status --porcelain)" ]; then echo "/repo not clean"; exit 2; fi
  git -C /repo apply /verif/seeded/$n/patch.diff || { echo "$n patch-does-not-apply"; continue; }
  for c in $id $extra; do
    t0=$(date +%s); ./check $c $tier > /tmp/seedmx_${n}_$c.log 2>&1; rc=$?
    echo -e "$n\t$c\t$tier\trc=$rc\t$(($(date +%s)-t0))s\t$(grep -m1 '^VIOLATION' /tmp/seedmx_${n}_$c.log | sed 's/.*replay=.*\///')"
  done
  git -C /repo checkout -q -- .; git -C /repo clean -fdq
done
