#!/bin/bash
# seed_run_wt.sh <patch.diff> <tier> <ID>...  -- like seed_run.sh, but against a
# scratch worktree (/tmp/seedrepo, created with `git -C /repo worktree add
# --detach /tmp/seedrepo HEAD`) so that /repo stays untouched.
set -u
patch=$1; tier=$2; shift 2
wt=/tmp/seedrepo
cd /verif
export GOSYM_EVIDENCE_DIR=/tmp/seed_evidence  # keep /verif/evidence for the unchanged tree
git -C $wt checkout -q --detach $(git -C /repo rev-parse HEAD) 2>/dev/null
git -C $wt checkout -q -- . ; git -C $wt clean -fdq
git -C $wt apply "$patch" || exit 2
for id in "$@"; do
  t0=$(date +%s)
  bin/gosym check -repo $wt -id "$id" -tier "$tier" > /tmp/seedrun_$id.log 2>&1
  rc=$?
  echo "$id rc=$rc $(($(date +%s)-t0))s $(grep -m1 '^VIOLATION' /tmp/seedrun_$id.log) $(grep -c 'reduced-bound' /tmp/seedrun_$id.log) reduced"
done
git -C $wt checkout -q -- . ; git -C $wt clean -fdq
